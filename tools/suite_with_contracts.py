#!/usr/bin/env python3
"""Development experiment (DESIGN.md section 7): run the repository's OWN test-suite with the harness' in-situ monitors installed.

A monitor that fires there is either too strict or points at a defect the tests do not assert; every firing is written, with a witness,
to notes/suite_with_contracts.json.  Monitors only record (they never raise into the code under test).

usage: /venv/bin/python tools/suite_with_contracts.py [pytest args...]        (runs in /repo, single process)
"""
import json
import os
import sys

VERIF = os.path.dirname(os.path.dirname(os.path.abspath(__file__)))
sys.path.insert(0, VERIF)
sys.path.append(os.path.join(VERIF, ".deps"))
os.environ.setdefault("DESOLVER_REPO", "/repo")

from vf import core  # noqa

core.activate_repo()
import numpy as np  # noqa
import desolver as de  # noqa
import desolver.differential_system as ds  # noqa
import desolver.utilities as du  # noqa
import desolver.utilities.utilities as duu  # noqa
import desolver.utilities.optimizer as opt  # noqa

LOG = {"evaluations": {}, "violations": []}


def bump(k):
    LOG["evaluations"][k] = LOG["evaluations"].get(k, 0) + 1


def bad(kind, **d):
    if sum(1 for v in LOG["violations"] if v["kind"] == kind) < 10:
        d["kind"] = kind
        d["test"] = os.environ.get("PYTEST_CURRENT_TEST", "")
        LOG["violations"].append(json.loads(core.dumps(d)))
    bump("violations_" + kind)


def is_numpy(x):
    return isinstance(x, np.ndarray) or isinstance(x, (float, np.floating))


# ---- OdeSystem.integrate: C03 (monotone, no overshoot, lengths, finite) + C06 structure at every quiescent point
_orig_integrate = ds.OdeSystem.integrate
_depth = {"n": 0}


def integrate(self, t=None, callback=None, eta=False, events=None):
    n0 = len(self)
    _depth["n"] += 1
    try:
        return _orig_integrate(self, t=t, callback=callback, eta=eta, events=events)
    finally:
        _depth["n"] -= 1
        if _depth["n"] == 0:
            try:
                tt = np.asarray(self.t)
                yy = np.asarray(self.y)
                if tt.dtype.kind == "f":
                    bump("integrate_calls_observed")
                    if len(tt) != len(yy):
                        bad("lengths", lens=[len(tt), len(yy)])
                    seg = tt[n0 - 1:].astype(np.longdouble)
                    if len(seg) > 2 and np.all(np.isfinite(seg.astype(np.float64))):
                        d = np.sign(np.diff(seg))
                        if not (np.all(d > 0) or np.all(d < 0)):
                            bad("monotone", first=[float(x) for x in seg[:4]], last=[float(x) for x in seg[-4:]])
                    sol = self.sol
                    if sol is not None and sol.t_eval is not None and len(sol.y_interpolants) > 0 and not str(type(self.integrator).__name__).startswith("Richardson"):
                        bump("dense_objects_observed")
                        te = np.array([float(x) for x in sol.t_eval])
                        if len(te) != len(sol.y_interpolants):
                            bad("dense_lengths", lens=[len(te), len(sol.y_interpolants)])
                        elif len(te) > 1 and not np.all(np.diff(te) > 0):
                            bad("dense_sorted", n=len(te))
                        ends = set()
                        for p in sol.y_interpolants:
                            ends.add(float(p.t0))
                            ends.add(float(p.t1))
                        if len(tt) > 1 and ends != set(float(x) for x in tt):
                            bad("dense_cover", extra=len(ends - set(float(x) for x in tt)), missing=len(set(float(x) for x in tt) - ends))
            except Exception as e:   # a monitor must never disturb the suite
                bump("monitor_errors")
                LOG.setdefault("monitor_errors", []).append(repr(e)[:200])


ds.OdeSystem.integrate = integrate

# ---- root finder used by event detection: sign change => success, root inside the bracket
_orig_rf = ds.root_finder


def root_finder(f, bounds, *a, **k):
    out = _orig_rf(f, bounds, *a, **k)
    try:
        if isinstance(f, list) and is_numpy(np.asarray(bounds[0])):
            bump("root_finder_calls")
            roots, ok = np.asarray(out[0]), np.asarray(out[1])
            lo, hi = sorted([float(np.asarray(bounds[0])), float(np.asarray(bounds[1]))])
            for i, fi in enumerate(f):
                fa, fb = float(np.asarray(fi(bounds[0]))), float(np.asarray(fi(bounds[1])))
                if fa * fb < 0:
                    bump("root_finder_sign_changes")
                    if not bool(ok[i]):
                        bad("brent_failure_on_sign_change", f_ends=[fa, fb], root=float(roots[i]))
                    elif not (lo <= float(roots[i]) <= hi):
                        bad("brent_root_outside_bracket", bracket=[lo, hi], root=float(roots[i]))
    except Exception as e:
        bump("monitor_errors")
    return out


ds.root_finder = root_finder

# ---- nonlinear_roots: success => residual small (same bound as C15, x10 for the unknown Jacobian norm)
_orig_nr = opt.nonlinear_roots


def nonlinear_roots(f, x0, jac=None, tol=None, **kw):
    out = _orig_nr(f, x0, jac=jac, tol=tol, **kw)
    try:
        if isinstance(out[0], np.ndarray) and bool(out[1][0]) and tol is not None and not kw.get("var_bounds"):
            bump("nonlinear_roots_successes")
            Fx = np.asarray(f(out[0], *kw.get("additional_args", tuple()), **kw.get("additional_kwargs", {})), dtype=np.float64).reshape(-1)
            res = float(np.linalg.norm(Fx))
            xn = float(np.linalg.norm(np.asarray(out[0], dtype=np.float64).reshape(-1)))
            if res > 200.0 * float(tol) * (Fx.size + xn):
                bad("nonlinear_roots_false_success", residual=res, tol=float(tol), size=int(Fx.size), dtype=str(out[0].dtype))
    except Exception as e:
        bump("monitor_errors")
    return out


opt.nonlinear_roots = nonlinear_roots

# ---- bisection reference model
_orig_sb = du.search_bisection


def search_bisection(array, val):
    out = _orig_sb(array, val)
    try:
        a = np.asarray([float(x) for x in array])
        if len(a) > 1 and np.all(np.diff(a) > 0):
            bump("search_bisection_calls")
            want = min(int(np.searchsorted(a, float(val), side="left")), len(a) - 1)
            if int(out) != want:
                bad("bisection", n=len(a), query=float(val), got=int(out), want=want)
    except Exception:
        pass
    return out


du.search_bisection = search_bisection
duu.search_bisection = search_bisection


def main():
    import pytest
    os.chdir("/repo")
    args = sys.argv[1:] or ["-q", "-p", "no:cacheprovider", "-x", "--timeout=900", "-k", "not torch"]
    rc = pytest.main(args)
    LOG["pytest_exit"] = int(rc)
    out = os.path.join(VERIF, "notes", "suite_with_contracts.json")
    with open(out, "w") as fh:
        json.dump(LOG, fh, indent=1)
    print("\n== in-situ monitors over the repository's own tests ==")
    print(json.dumps(LOG["evaluations"], indent=1))
    print("violations recorded:", len(LOG["violations"]))
    for v in LOG["violations"][:12]:
        print("  ", json.dumps(v)[:300])
    return 0


if __name__ == "__main__":
    sys.exit(main())
