#!/bin/bash
# Development aid (not a registered check): line/branch coverage of /repo/desolver under the quick (or given) tier of the given checks.
# usage: tools/linecov.sh <outdir> [tier] [ids...]        -> <outdir>/report.txt (missing lines per file), <outdir>/<ID>.txt per property
OUT=${1:-/tmp/linecov}; TIER=${2:-quick}; shift 2
IDS=${@:-C01 C02 C03 C04 C05 C06 C07 C08 C09 C10 C11 C12 C13 C14 C15 C16 C17 C18 C19 C20}
cd /verif; rm -rf "$OUT"; mkdir -p "$OUT/all"
for p in $IDS; do
  mkdir -p "$OUT/$p"
  VERIF_LINECOV_DIR="$OUT/$p" VERIF_NO_EVIDENCE=1 VERIF_CASE_TIMEOUT=1200 ./check $p --tier $TIER 2>&1 | grep -E "^RESULT|^INCONCL|^VIOLATION" | cut -c1-300
  (cd "$OUT/$p" && /venv/bin/python -m coverage combine -q --keep . >/dev/null 2>&1; /venv/bin/python -m coverage report -m --data-file=.coverage > "$OUT/$p.txt" 2>&1)
  cp "$OUT/$p"/.coverage.* "$OUT/all/" 2>/dev/null
done
(cd "$OUT/all" && /venv/bin/python -m coverage combine -q . >/dev/null 2>&1; /venv/bin/python -m coverage report -m --data-file=.coverage > "$OUT/report.txt" 2>&1)
tail -25 "$OUT/report.txt"
