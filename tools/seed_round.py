#!/usr/bin/env python3
"""Development tool: prepare one round of independent seeding.

usage: tools/seed_round.py <round-tag> C01 C02 ...      (e.g. tools/seed_round.py 4 C03 C07)

For every property given: a scratch worktree of /repo HEAD at /tmp/mut<tag>_<P>, an output directory /tmp/mut_<P>_out with
property.json and PROMPT.txt (tools/seeding_prompt_template.txt with the property text, the next free variant numbers and a
list of the *source sites* earlier rounds already changed, so that a new round explores other mechanisms).  Nothing from
/verif's checks goes into the prompt.
"""
import glob
import json
import os
import re
import shutil
import subprocess
import sys

VERIF = os.path.dirname(os.path.dirname(os.path.abspath(__file__)))


def main():
    tag = sys.argv[1]
    props = {json.loads(l)["id"]: l.strip() for l in open(os.path.join(VERIF, "properties.jsonl")) if l.strip()}
    tmpl = open(os.path.join(VERIF, "tools", "seeding_prompt_template.txt")).read()
    for p in sys.argv[2:]:
        have = sorted(int(d.rsplit("-", 1)[1]) for d in glob.glob(os.path.join(VERIF, "seeded", p + "-*")))
        n1 = (max(have) if have else 0) + 1
        n2 = n1 + 1
        sites = []
        for d in sorted(glob.glob(os.path.join(VERIF, "seeded", p + "-*", "patch.diff"))):
            cur = None
            for line in open(d):
                if line.startswith("+++ b/"):
                    cur = line[6:].strip()
                m = re.match(r"@@ [^@]*@@\s*(.*)", line)
                if m and cur:
                    s = "%s :: %s" % (cur, m.group(1).strip()[:90])
                    if s not in sites:
                        sites.append(s)
        wt = "/tmp/mut%s_%s" % (tag, p)
        out = "/tmp/mut_%s_out" % p
        subprocess.run("git -C /repo worktree remove --force %s" % wt, shell=True, capture_output=True)
        shutil.rmtree(out, ignore_errors=True)
        os.makedirs(out)
        r = subprocess.run("git -C /repo worktree add --detach %s HEAD" % wt, shell=True, capture_output=True, text=True)
        assert r.returncode == 0, r.stderr
        open(os.path.join(out, "property.json"), "w").write(props[p] + "\n")
        txt = tmpl.replace("/tmp/mut3_@@P@@", wt).replace("@@P@@", p).replace("@@PROPERTY@@", json.dumps(json.loads(props[p]), indent=1))
        txt = txt.replace('"patch 3" and "patch 4"', '"patch %d" and "patch %d"' % (n1, n2))
        txt = txt.replace("patch3.diff / patch4.diff", "patch%d.diff / patch%d.diff" % (n1, n2)).replace("demo3.py / demo4.py", "demo%d.py / demo%d.py" % (n1, n2))
        if sites:
            txt += ("\n\nEarlier rounds of this exercise already produced changes at the following source sites (file :: enclosing definition). "
                    "Do NOT repeat those ideas; look for a DIFFERENT mechanism or a different cooperating pair of sites (the same file is fine if the mechanism differs):\n  - "
                    + "\n  - ".join(sites) + "\n")
        open(os.path.join(out, "PROMPT.txt"), "w").write(txt)
        print(p, "variants", n1, n2, "worktree", wt, "sites listed", len(sites))


if __name__ == "__main__":
    main()
