#!/usr/bin/env python3
"""Development tool (not a registered check): run quick checks against mutated copies of the repository.

usage: tools/mutation_matrix.py [--patch FILE ...] [--revert-fixes] [--props C01,C02,...] [--seeds 0] [--jobs 4] [--out notes/mutation_matrix.json]

Each mutant = /repo HEAD + one patch, materialised as a scratch git worktree OUTSIDE /repo and /verif, checked with
`./check <ID> --repo <scratch>` (VERIF_JOBS limited), then removed.  `--revert-fixes` builds one mutant per `fix:` commit
of /repo by reverse-applying it (each was a real defect, so each is a realistic break).
"""
import argparse
import json
import os
import subprocess
import sys
import tempfile
import time

VERIF = os.path.dirname(os.path.dirname(os.path.abspath(__file__)))


def sh(cmd, **kw):
    return subprocess.run(cmd, shell=True, capture_output=True, text=True, **kw)


def fix_commits():
    out = sh("git -C /repo log --reverse --format='%h %s' --grep='^fix:'").stdout.strip().splitlines()
    return [(l.split()[0], " ".join(l.split()[1:])) for l in out]


def make_worktree(tag):
    d = tempfile.mkdtemp(prefix="mt_%s_" % tag, dir="/tmp")
    os.rmdir(d)
    r = sh("git -C /repo worktree add --detach %s HEAD" % d)
    if r.returncode:
        raise RuntimeError(r.stderr)
    return d


def drop_worktree(d):
    sh("git -C /repo worktree remove --force %s" % d)


def run_mutant(name, apply_cmd, props, seeds, jobs, timeout):
    d = make_worktree("".join(c for c in name if c.isalnum())[:16])
    res = {"mutant": name, "checks": {}}
    try:
        r = sh(apply_cmd.format(wt=d))
        if r.returncode:
            res["apply_error"] = (r.stderr or r.stdout)[-400:]
            return res
        for pid in props:
            for seed in seeds:
                t0 = time.time()
                env = dict(os.environ, VERIF_JOBS=str(jobs), DESOLVER_REPO=d, VERIF_NO_EVIDENCE="1")
                try:
                    r = subprocess.run(["./check", pid, "--seed", str(seed), "--repo", d], cwd=VERIF, env=env, capture_output=True, text=True, timeout=timeout)
                    lines = [l for l in r.stdout.splitlines() if l.startswith("VIOLATION") or l.startswith("INCONCLUSIVE") or l.startswith("  clause=")]
                    res["checks"]["%s@%d" % (pid, seed)] = {"exit": r.returncode, "wall": round(time.time() - t0, 1),
                                                           "first": [l[:260] for l in lines[:3]]}
                except subprocess.TimeoutExpired:
                    res["checks"]["%s@%d" % (pid, seed)] = {"exit": "timeout", "wall": timeout}
    finally:
        drop_worktree(d)
    return res


def main():
    ap = argparse.ArgumentParser()
    ap.add_argument("--patch", action="append", default=[])
    ap.add_argument("--revert-fixes", action="store_true")
    ap.add_argument("--only", default=None, help="comma list of fix commit hashes (with --revert-fixes)")
    ap.add_argument("--props", default=",".join("C%02d" % i for i in range(1, 21)))
    ap.add_argument("--seeds", default="0")
    ap.add_argument("--jobs", type=int, default=4)
    ap.add_argument("--timeout", type=int, default=1500)
    ap.add_argument("--out", default=os.path.join(VERIF, "notes", "mutation_matrix.json"))
    a = ap.parse_args()
    props = a.props.split(",")
    seeds = [int(s) for s in a.seeds.split(",")]
    mutants = []
    for p in a.patch:
        mutants.append((os.path.relpath(os.path.abspath(p), VERIF), "git -C {wt} apply %s" % os.path.abspath(p)))
    if a.revert_fixes:
        only = set(a.only.split(",")) if a.only else None
        for h, subj in fix_commits():
            if only and h not in only:
                continue
            mutants.append(("revert %s %s" % (h, subj[:70]), "git -C /repo show %s | git -C {wt} apply -R --3way 2>&1 || (git -C /repo show %s | git -C {wt} apply -R)" % (h, h)))
    results = []
    if os.path.exists(a.out):
        try:
            results = json.load(open(a.out))
        except Exception:
            results = []
    for name, cmd in mutants:
        print("== mutant:", name, flush=True)
        r = run_mutant(name, cmd, props, seeds, a.jobs, a.timeout)
        caught = [k for k, v in r["checks"].items() if v["exit"] == 1]
        inconc = [k for k, v in r["checks"].items() if v["exit"] == 2]
        print("   caught by:", caught, " inconclusive:", inconc, r.get("apply_error", ""), flush=True)
        results = [x for x in results if x["mutant"] != name] + [r]
        with open(a.out, "w") as fh:
            json.dump(results, fh, indent=1)


if __name__ == "__main__":
    main()
