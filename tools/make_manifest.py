#!/usr/bin/env python3
"""Regenerates /verif/MANIFEST.json from the table below (keeps it schema-valid at all times)."""
import json
import os
import subprocess

HERE = os.path.dirname(os.path.dirname(os.path.abspath(__file__)))

FIXES = subprocess.run(["git", "-C", "/repo", "log", "--format=%h %s", "--grep=^fix:"], capture_output=True, text=True).stdout.strip().splitlines()

# property -> (level, technique, text, note, design_ref)
CHECKS = {
    "C01": ("exploration", "runtime oracle: exact-solution probes of the real integrators on graded polynomial systems + local-error slope monitor",
            "Every shipped method (and Richardson wrappers) is executed on random graded polynomial systems whose exact rational solution any "
            "method of the declared order must reproduce to rounding for every step size (noise-free, defect separation >= 6 decades), plus "
            "embedded-weight consistency and asymptotic local-error slopes (order <= 6). Held = no refuting execution among those observed.",
            "Exploration over generated problems; genericity of random graded systems stands in for 'all elementary differentials'. "
            "Trusts numpy/Fraction arithmetic and the harness's exact polynomial integrator.", "4/C01"),
    "C02": ("exploration", "runtime reference-model monitor on hooked integrator state (stage slopes, attempts log)",
            "After every real step the exposed stage slopes are checked against f evaluated (in longdouble) at the stage arguments rebuilt from "
            "the class tableau; dState against h*sum(b k); splitting steps against an explicit drift/kick composition; an instance-level "
            "wrapper on step() logs every attempt so that an accepted step whose Newton iteration failed is observed. Also in situ on every step of real OdeSystem runs (constants changed between calls) and on stiff float32 runs (h*|df/dy| up to 1e5) judged against the stated solver tolerance.",
            "Exploration over random smooth programs/shapes/dtypes/signs; the reference uses the same class tableau (coefficient "
            "correctness is C01's subject).", "4/C02"),
    "C03": ("exploration", "runtime invariant monitor at the quiescent points of OdeSystem.integrate (per-call segment oracle, CLOCK component, sys.monitoring reach markers)",
            "Every integrate() call of generated histories (spans of every sign pattern, dt larger/smaller than the span and of either sign, split and "
            "reversed calls, runs outgrowing the 5000-row buffer with/without events and dense output, three dtypes) is checked at return for start, "
            "strict monotonicity, no overshoot, landing within 64 eps, pairing via a clock component, finiteness, dtype and first row = y0. Histories include moving the final time through its setter, calls whose closing step is rejected, and repeated calls at the target.",
            "Exploration; bounded progress (step budget) restates 'ends at the target'; dt below 64 ulp of the time scale is excluded as undecidable.", "4/C03"),
    "C04": ("exploration", "runtime step-size monitor on recorded grids + metamorphic shift/reflection relations between paired executions",
            "Fixed-step methods (set computed from is_adaptive) are run on spans of every sign pattern: all steps but the last equal dt to rounding, none "
            "longer, implicit shortening only with a Newton failure logged by the step() wrapper; autonomous problems are re-run time-shifted and "
            "time-reflected and compared row by row at rounding level (fixed step) / tolerance level (adaptive); bit-equality counts are reported. The same requests are also made through multi-leg histories and through the solve_ivp facade (first_step).",
            "Exploration; relation oracles need no exact solution. KF06-08 (non-adaptive implicit methods grow their step) are open known findings.", "4/C04"),
    "C05": ("exploration", "runtime oracle against exact solutions in tolerance units (global + local flow) and an attempts-log monitor on step()",
            "Adaptive pairs and Richardson wrappers run on contractive manufactured/linear problems with closed-form solutions over tolerances 1e-3..1e-11, "
            "both directions and initial steps from 1e-4 to 20x the span: every recorded state is compared with the exact solution (normalised by the "
            "steps inside the problem's memory window), sampled accepted steps with the exact local flow from the recorded previous state, the logged "
            "attempts must strictly shrink after a controller rejection, and blow-up problems must raise with an accurate prefix. Every recorded time increment must equal the step finally accepted for it (attempt log vs grid).",
            "Exploration; constants K_LOC=50, K_GLOB=20 tolerance units (worst observed values are in the evidence); problems are contractive along the "
            "integration direction so the problem's own amplification is ~1.", "4/C05"),
    "C06": ("exploration", "runtime structural invariant of the live DenseOutput at quiescent points + behavioural oracle against exact solutions",
            "After every integrate() return/raise of generated histories (single, split, queried between calls, non-terminal events, terminal stop "
            "then continuation, injected failure then resume; both directions; all method families; Richardson wrappers) the DenseOutput must be "
            "sorted, aligned, contiguous, cover exactly the recorded times, reproduce recorded states bit-for-bit, answer queries with the containing "
            "piece, agree between scalar and array queries, have end slopes equal to f at the recorded states and stay within the cubic-Hermite bound.",
            "Exploration; interior bound uses the manufactured solution's fourth derivative; KF09 (Richardson pieces from un-extrapolated sub-steps) open.", "4/C06"),
    "C07": ("exploration", "runtime trace monitor: wrapped root_finder/handle_events + callback-sequenced event log, checked against true roots of the exact trajectory",
            "Each reported event is checked for: state equal to the step interpolant at detection time (captured in situ), residual small relative to "
            "the function's steepness and scale, time inside the step being processed, injective match to a true root of g along the exact solution "
            "within the node/interpolation error, direction along the direction of integration, listing order, uniqueness, events_dict consistency.",
            "Exploration; tangential roots and runs too inaccurate to identify crossings are excluded (counted).", "4/C07"),
    "C08": ("exploration", "offline checker over the recorded grid + in-situ detection trace for attribution",
            "Event functions g=s*(h-c) over 12 decades of s (component, linear, time, norm, derivative-dependent, steep) are evaluated on the recorded "
            "rows after each run; every strict sign change over a recorded step in an accepted direction (and exact zeros on grid points between "
            "opposite signs) must have a reported event of that function inside the step; >= 50 crossing steps per {direction}x{dense} cell. Strata: crossings a few ulps inside a step end (levels taken from a reference run), coincident roots of different functions, terminal events sharing their step with non-terminal crossings.",
            "Exploration; oracle needs no exact solution (it is exact with respect to what the detector sees).", "4/C08"),
    "C09": ("exploration", "runtime oracle at the terminal stop and after continuation (segment + dense invariants, exact-trajectory roots, detection trace)",
            "Mixes of terminal/non-terminal events, finite and +-infinite targets, both directions: last time = event time, last state on the surface "
            "relative to steepness, nothing beyond, terminal event last and matching a true root with no certain earlier terminal root, status/success, "
            "prefix invariants (C03/C06 oracles), then continuation (plain, to an intermediate time, with a second terminal event) re-checked. Landing sub-steps and the first continuation steps are replayed with a fresh integrator (history independence); time axes up to 1e3 away from the origin.",
            "Exploration; only 'certain' (isolated, transversal) true roots are required to be honoured; re-arming the same event at its root is out of scope.", "4/C09"),
    "C10": ("exploration", "runtime oracle on the one-step map of the real integrators (exact/finite-difference Jacobian J-test, h/-h round trip, long-run energy monitor)",
            "Symplectic-flagged methods: exact step matrix on quadratic Hamiltonians and finite-difference step Jacobian on nonlinear separable ones must "
            "satisfy M^T J M = J, step(h) then step(-h) must return, 3000-step runs must show no secular energy growth; the same Hamiltonian is presented in "
            "(q,p), (p,q) and interleaved layouts with the matching kick mask through set_kick_vars / set_method / the constructor; non-symplectic methods are "
            "run as negative controls (the monitor must fire on them). Long steps of the implicit symplectic methods (stage iteration may fail) under the own controller and under a user adaptation_fn: whatever step is handed back must be reversible and symplectic; masks given before a change of scheme.",
            "Exploration; implicit methods are probed in float64 (delta 1e-4, threshold 3e-7), splitting methods in longdouble (1e-9).", "4/C10"),
    "C11": ("exploration", "runtime oracle: accepted steps of the real implicit integrators on the linear test equation vs the stability function of the class tableau",
            "y'=lambda*y and damped 2x2 blocks with the exact Jacobian hooked, z=h*lambda over the closed left half-plane (|z| 1e-3..1e8, imaginary axis "
            "included, both step signs consistent with decay): an accepted step never increases |y| and reproduces |R(z')| for the accepted h'; in addition "
            "|R|<=1 on a 45x44 log-polar grid and no pole in the closed left half-plane, computed in extended precision from the class tableau. Chains of consecutive calls on one integrator object (each starting where the previous step ended) are held to the same oracle.",
            "Exploration; tolerances scaled to eps*|lambda| so that Newton can converge; raises are 'no acceptance' and only counted.", "4/C11"),
    "C12": ("fault_enumeration", "crash-point enumeration: fault injected at every k-th invocation of a user callable; offline comparison with the unfaulted reference run",
            "A counting shim wraps rhs, callbacks and event functions; for each configuration (6 method families x directions x dense on/off, events + callback) "
            "the run is repeated with an exception (custom, ZeroDivisionError, FloatingPointError, KeyboardInterrupt, ValueError) at EVERY invocation index; "
            "checked: exception type and cause identity, status, recorded rows bit-equal to a prefix of the reference run, dense output covering exactly those "
            "rows, events a prefix, resume reaching tf with C03/C06 oracles and slope join, reset + rerun bit-equal to a fresh run; thorough adds configurations "
            "and double faults. Configurations whose callback inflates dt put crash points inside the retries of rejected, non-first steps; the first steps after a resume are replayed with a fresh integrator.",
            "Exhaustive over invocation positions of the enumerated short runs (N<=~450 each); call sites classified by frame walk; asynchronous interrupts not injected.", "4/C12"),
    "C13": ("exploration", "reference-model monitor: random operation sequences on the real OdeSystem next to a freshly constructed twin; digests after every operation",
            "Sequences over {integrate(), integrate(t), set dt/rtol/atol/method/tf, set_kick_vars, integrate with events, faulting integrate, reset} are executed "
            "twice (bit-identical logs), the state right after reset() is checked for pristineness, everything after the last reset is compared bit-for-bit (rows, "
            "events, dense output) with a new system built with the same constructor arguments and persistent settings, caller data (y0, constants) are compared "
            "with private copies after every operation; split spans vs single span; a call at the target must change nothing. Richardson wrappers are among the methods; the first steps of every call are replayed with a fresh integrator and its first dense piece must start with f at the recorded row; faults are also placed inside the retry of a rejected step.",
            "Exploration; the kick mask in force is read from the system at reset time; class tableaus are checksummed per worker.", "4/C13"),
    "C14": ("exploration", "runtime oracle from known sign structure on generated functions + icontract post-condition on the production root finder",
            "11 function families (smooth, steep, multiple roots, jump, tangent, end-point roots, rootless) x scales 1e-6..1e9 x bracket order x tolerances eps..1e-3 x "
            "float32/float64/longdouble x vectors of 1..16 mixed solvable/unsolvable components; sign change => success inside the bracket within tol_x of a sign "
            "change; success => certified; no sign change and min|f|>tol => failure; vector agrees with scalar where the answer is determined; an icontract "
            "post-condition records every production call made by real event detection.",
            "Exploration; tol_x = max(tol,4eps)(1+|x|)+4ulp; the no-root sentinel inf with success=False is accepted.", "4/C14"),
    "C17": ("exploration", "exhaustive small-scope reference-model check (numpy.searchsorted) + random cubics + icontract post-condition in situ",
            "search_bisection / search_bisection_vec on ALL 501 strictly increasing arrays of length 1..7 over a 9-point grid and all 21 queries of the refined grid "
            "(lists and ndarrays, three dtypes; also under affine maps of the axis with spacings from 1e-12 to 1e9); CubicHermiteInterp end values/slopes bit-exact and random cubics (scalar, vector, matrix valued, both "
            "orientations) reproduced to conditioning-scaled rounding inside and outside the interval, gradient = derivative; production look-ups checked in situ.",
            "Exhaustive for the stated small scope (exhaustive:true), exploration for the cubics.", "4/C17"),
    "C15": ("exploration", "runtime oracle on return values of the real solvers on systems with known roots / known absence of roots + record-only wrapper on production stage solves",
            "nonlinear_roots (both dispatch paths), hybrj and newtontrustregion on diagonally dominant, singular-at-root, rootless, flat-asymptote and badly scaled "
            "systems, n=1..12, array shapes, with/without user Jacobian, good/bad/far guesses, three tolerances: success => residual <= 20*tol*(n+|x|)*max(1,|J|) "
            "and shape preserved, otherwise failure must be reported (flag or LinAlgError/ValueError); every successful stage solve of real implicit integrations "
            "is checked in situ. Further axes: regular systems with a zero-diagonal Jacobian, iteration budgets of 3..32, use_scipy=False dispatch.",
            "Exploration; KF10 (built-in dogleg claims success on step/trust-region criterion) is an open known finding.", "4/C15"),
    "C16": ("exploration", "runtime oracle against analytic Jacobians + history monitor on DiffRHS with sentinel user Jacobians",
            "JacobianWrapper on random smooth and linear maps R^n->R^m with vector/matrix shapes, points near 0 and large, base orders 2..7, flat and shaped "
            "layouts; DiffRHS.jac under random histories of jac/hook/unhook/assign/attribute with a time-dependent right-hand side and repeated times: user "
            "Jacobians (sentinel values) returned whenever attached, otherwise the derivative at the requested (t,y); njev increments once per request. The wrapper inside a live OdeSystem keeps the attached user Jacobian across runs, reset, method and tolerance changes.",
            "Exploration; FD thresholds 1e-8 (direct) / 1e-9 (through DiffRHS) relative to |J|+1, linear maps at 1e4*eps.", "4/C16"),
    "C18": ("exploration", "runtime oracle on the facade's return value against the underlying system, the object API (bit-equality) and scipy.integrate.solve_ivp",
            "solve_ivp with methods by name or class, vector and matrix states, both span directions, t_eval (none, inner, with end points, unsorted, repeated), "
            "args tuples, max_step, first_step, tolerances, dense output, events: shapes, pairing via a clock component, first column, requested times, args "
            "binding, max_step bound on recorded steps, facade fields = ode_system's, trajectory bit-equal to the object API with the same settings, agreement "
            "with scipy DOP853.",
            "Exploration; 'exactly those times' read up to landing rounding (64 eps).", "4/C18"),
    "C19": ("exploration", "reference-model monitor: Python-list sequence semantics and nearest-sample model on recorded grids",
            "Uniform and adaptive, forward and backward, continued trajectories: every integer index in [-len-2,len+2] vs a list of the recorded rows, iteration, "
            "time look-ups inside/outside the range (dense: bit-equal sol(t); otherwise nearest recorded sample), whole-run and partial time slices. Time axes in units from 1e-9 to 1e3; dense look-ups are also compared with the exact solution; look-ups on a fresh system and inside callbacks; array-valued look-ups.",
            "Exploration; ties in 'nearest' may go either way.", "4/C19"),
    "C20": ("exploration", "runtime counters: independent completion counter in the user function, class-level wrapper on DiffRHS.jac, callback log, step() attempts log",
            "Explicit, FSAL, implicit (finite-difference and user Jacobian), splitting and Richardson methods with events, dense output, forced rejections, injected "
            "failures and resets: nfev equals completed rhs calls at every quiescent point and inside every callback (0 after reset), njev equals completed "
            "Jacobian requests, callbacks run in order after a new visible row once per recorded step (terminal landings share one), a dt assigned in a callback "
            "is the first attempt of the next step. Also through the solve_ivp facade with t_eval and callbacks (assignments across the facade's calls) and for several systems built from one wrapped right-hand side.",
            "Exploration; njev may count since construction or since the last reset.", "4/C20"),
}

NOT_YET = {}


# workload strata added in the fourth round of independent seeding (DESIGN.md 9.5(d), "Round 4"): appended to the level text
ROUND4 = {
    "C02": "Mixed-scale states (trace components 1e-18..1e-24) with the increment identity judged component by component; stiff single calls under the library's own controller with a small solution and rtol >> atol.",
    "C03": "Right-hand sides defined on part of the state space (long trial steps with NaN error estimates) and an idle component under a purely relative tolerance: success implies finite, accurate rows.",
    "C04": "Spans that are a whole number of steps plus a sliver, time shifts by 1e7..2e9, and the requested step changed through the dt setter between calls.",
    "C05": "Per-component absolute tolerances (arrays) with every component judged in its own unit.",
    "C06": "Histories in which the caller edits the newest recorded state in place between two calls.",
    "C07": "State-dependent events whose root is bit-exactly a recorded row, with one-sided requests and sign-flipped twins.",
    "C08": "Calls handed over from a call that monitored other functions (crossing in the first step) and event objects first monitored by another system with other attributes.",
    "C09": "Vectorised dense queries before the terminal run, after the stop and after the continuation; event objects surveyed with other attributes first.",
    "C10": "h / -h round trips on explicitly time-dependent separable Hamiltonians.",
    "C11": "Steps handed back by the library's own controller after rejected attempts (requested direction of time, R(z) of the accepted step).",
    "C12": "The statement's second failure kind - tolerances that cannot be met (finite-time blow-up of one component): exception type and cause, status, accurate prefix, dense cover, then the right-hand side is repaired and integrate() must continue to the end; reset() pristine.",
    "C13": "Systems whose method was assigned several times compared bit-for-bit with a fresh system holding the last method, before and after reset().",
    "C14": "Batches solved before and after other public entry points of the library were used in the same process (purity).",
    "C15": "Restricted-domain systems (log, sqrt) with guesses from which the iteration leaves the domain; a non-finite residual at a claimed root is a violation.",
    "C16": "Wrappers built through rhs_prettifier (Jacobian attribute set before wrapping) and user wrappers handed to solve_ivp with and without args.",
    "C17": "Every array asked in descending and shuffled orders; integer / reduced-precision arrays asked with float64 queries.",
    "C18": "max_step such that the span is a whole number of steps plus a sliver; event roots bit-exactly on requested output times reported once each.",
    "C19": "Six- and seven-level Richardson wrappers with dense output: every time inside a recorded step is answered by a piece that contains it.",
    "C20": "Richardson wrappers of implicit bases; callbacks that grow the step after every recorded step (assignment following a rejected attempt).",
}


def main():
    ids = ["C%02d" % i for i in range(1, 21)]
    checks = []
    for pid in ids:
        if pid not in CHECKS:
            continue
        level, tech, text, note, ref = CHECKS[pid]
        if pid in ROUND4:
            text = text.rstrip() + " " + ROUND4[pid]
        checks.append({
            "property_id": pid,
            "quick_cmd": "./check %s --tier quick" % pid,
            "thorough_cmd": "./check %s --tier thorough" % pid,
            "evidence_file": "evidence/%s.json" % pid,
            "replay_cmd_template": "./check %s --replay {path}" % pid,
            "engine": "vf",
            "level_claimed": {"category": level, "text": text, "design_ref": "DESIGN.md section " + ref},
            "level_note": note,
            "technique": tech,
        })
    na = [{"property_id": pid, "reason": NOT_YET.get(pid, "check not built yet in this round (runtime monitoring applies; see DESIGN.md section 4)")}
          for pid in ids if pid not in CHECKS]
    man = {
        "version": 1,
        "setup_cmd": "/venv/bin/python -m pip install --quiet --no-index --find-links /opt/veriftools/wheels --target /verif/.deps icontract",
        "hooks": {
            "guard": "DESOLVER_VERIF",
            "enable": "no source hooks: all instrumentation is harness-side (module-attribute/instance wrappers, sys.monitoring) and is "
                      "installed only inside check workers, which set DESOLVER_VERIF=1; checks import desolver from /repo's working tree",
            "baseline_off_cmd": "cd /repo && env -u DESOLVER_VERIF /venv/bin/python -m pytest -ra -q -p no:cacheprovider --timeout=900 --continue-on-collection-errors -n 8",
            "source_commits": [],
            "add_only": True,
        },
        "engines": [{"name": "vf", "path": "vf/", "serves_properties": [c["property_id"] for c in checks],
                     "kind_free_text": "runtime monitoring: generated hostile workloads on the real code, oracles over hooked state / traces / return values, sharded over 16 worker processes"}],
        "checks": checks,
        "not_applicable": na,
        "notes": "Repository defects repaired by unguarded 'fix:' commits in /repo: " + "; ".join(FIXES) +
                 ". Open defects are listed in known_findings.json and printed as KNOWN-FINDING lines. Exit code 2 + INCONCLUSIVE line = a monitor was not reached / watchdog fired (never happens on the unchanged tree).",
    }
    with open(os.path.join(HERE, "MANIFEST.json"), "w") as fh:
        json.dump(man, fh, indent=1)
    print("wrote MANIFEST.json with %d checks, %d not_applicable" % (len(checks), len(na)))


if __name__ == "__main__":
    main()
