#!/bin/bash
# usage: tools/run_repo_suite.sh <commit-ish> [workers]
# Runs the repository's own (unedited) suite, guard OFF, on a scratch worktree of <commit> outside /repo and /verif,
# appends the summary line to /verif/notes/suite_runs.log and removes the worktree.
set -u
C=${1:-HEAD}; N=${2:-6}
SHA=$(git -C /repo rev-parse --short "$C")
WT=/tmp/suite_${SHA}_$$
git -C /repo worktree add --detach "$WT" "$C" >/dev/null 2>&1 || exit 3
cd "$WT"
unset DESOLVER_VERIF
OUT=$(/venv/bin/python -m pytest -q -p no:cacheprovider --timeout=900 -n "$N" 2>&1 | tail -3)
WHERE=$(/venv/bin/python -c "import desolver,sys; print(desolver.__file__)" 2>/dev/null)
cd /
git -C /repo worktree remove --force "$WT"
echo "$(date -u +%FT%TZ) commit=$SHA import=$WHERE :: $(echo "$OUT" | tr '\n' ' ')" >> /verif/notes/suite_runs.log
echo "$OUT"
