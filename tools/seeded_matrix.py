#!/usr/bin/env python3
"""Development tool (not a registered check): re-run quick checks against every kept seeded change.

usage: tools/seeded_matrix.py [--only C08-3,C09-4] [--seeds 0,1,2] [--jobs 4] [--par 4] [--tier quick] [--checks C06,C12] [--no-write]

For each seeded/<id>/ a scratch worktree of /repo HEAD (outside /repo and /verif) gets patch.diff applied, the quick check of the
change's own property (or --checks) is run against it with `--repo`, the worktree is removed, and meta.json's
`checks_against_patched_tree` / `caught_by` are refreshed.  Prints one line per change.
"""
import argparse
import concurrent.futures as cf
import json
import os
import subprocess
import sys
import tempfile

VERIF = os.path.dirname(os.path.dirname(os.path.abspath(__file__)))


def sh(cmd, **kw):
    return subprocess.run(cmd, shell=True, capture_output=True, text=True, **kw)


def one(sid, checks, seeds, jobs, tier, write, cross=False):
    d = os.path.join(VERIF, "seeded", sid)
    meta = json.load(open(os.path.join(d, "meta.json")))
    wt = tempfile.mkdtemp(prefix="sm_%s_" % sid.replace("-", "_"), dir="/tmp")
    os.rmdir(wt)
    r = sh("git -C /repo worktree add --detach %s HEAD" % wt)
    if r.returncode:
        return sid, {"error": r.stderr[-300:]}, []
    res = {}
    try:
        r = sh("git -C %s apply %s" % (wt, os.path.join(d, "patch.diff")))
        if r.returncode:
            return sid, {"error": "patch does not apply: " + r.stderr[-300:]}, []
        for pid in (checks or [meta["property"]]):
            for seed in seeds:
                env = dict(os.environ, VERIF_JOBS=str(jobs), VERIF_NO_EVIDENCE="1")
                try:
                    rc = subprocess.run(["./check", pid, "--tier", tier, "--seed", str(seed), "--repo", wt], cwd=VERIF, env=env,
                                        capture_output=True, text=True, timeout=3000)
                    first = [l[:300] for l in rc.stdout.splitlines() if l.startswith("  clause=") or l.startswith("INCONCLUSIVE")][:3]
                    res["%s %s seed=%d" % (pid, tier, seed)] = {"exit": rc.returncode, "first": first}
                except subprocess.TimeoutExpired:
                    res["%s %s seed=%d" % (pid, tier, seed)] = {"exit": "timeout", "first": []}
    finally:
        sh("git -C /repo worktree remove --force %s" % wt)
    caught = [k for k, v in res.items() if v["exit"] == 1]
    if write and cross:
        meta.setdefault("cross_property_checks", {}).update(res)
        meta["caught_by_other_properties"] = sorted(set(meta.get("caught_by_other_properties", []) + caught))
        with open(os.path.join(d, "meta.json"), "w") as fh:
            json.dump(meta, fh, indent=1)
    elif write:
        meta["head_rechecked"] = sh("git -C /repo rev-parse --short HEAD").stdout.strip()
        meta["verif_rechecked"] = sh("git -C %s rev-parse --short HEAD" % VERIF).stdout.strip()
        meta["checks_against_patched_tree"] = res
        meta["caught_by"] = caught
        with open(os.path.join(d, "meta.json"), "w") as fh:
            json.dump(meta, fh, indent=1)
    return sid, res, caught


def main():
    ap = argparse.ArgumentParser()
    ap.add_argument("--only", default=None)
    ap.add_argument("--seeds", default="0,1,2")
    ap.add_argument("--jobs", type=int, default=4)
    ap.add_argument("--par", type=int, default=4)
    ap.add_argument("--tier", default="quick")
    ap.add_argument("--checks", default=None)
    ap.add_argument("--no-write", action="store_true")
    ap.add_argument("--cross", action="store_true", help="store the results of --checks under cross_property_checks instead of replacing the own-property results")
    a = ap.parse_args()
    ids = sorted(os.listdir(os.path.join(VERIF, "seeded")))
    if a.only:
        ids = [i for i in ids if i in a.only.split(",")]
    seeds = [int(s) for s in a.seeds.split(",")]
    checks = a.checks.split(",") if a.checks else None
    missed = []
    with cf.ThreadPoolExecutor(a.par) as ex:
        futs = [ex.submit(one, sid, checks, seeds, a.jobs, a.tier, not a.no_write, a.cross) for sid in ids]
        for f in cf.as_completed(futs):
            sid, res, caught = f.result()
            exits = {k: v["exit"] for k, v in res.items()} if "error" not in res else res
            n = len([1 for v in res.values() if isinstance(v, dict)]) if "error" not in res else 0
            print("%-7s caught %d/%d  %s" % (sid, len(caught), n, json.dumps(exits)), flush=True)
            if "error" in res or len(caught) < n:
                missed.append(sid)
    print("NOT FULLY CAUGHT:", ",".join(sorted(missed)))
    return 0


if __name__ == "__main__":
    sys.exit(main())
