#!/bin/bash
# Development driver: revert each fix: commit on a scratch worktree and run the related quick checks (see tools/mutation_matrix.py).
cd "$(dirname "$0")/.."
run() { python3 tools/mutation_matrix.py --revert-fixes --only "$1" --props "$2" --jobs ${JOBS:-4} --out notes/mutation_matrix_reverts.json; }
run 275676a C01,C02,C11
run 6e7e99e C01,C05
run 03759db C01,C05
run 9dcc83d C03,C04,C13
run 35f8633 C05,C03,C09
run 72a33da C03,C13
run 5273427 C05
run dcb8d1f C05
run f6d48bd C05
run 303f725 C06,C07,C19
run 2a8c972 C06,C07
run c9d0d00 C06,C12,C09
run 5de9e89 C09,C06
run f814de0 C12
run 1dbec6b C08,C07,C09
run e21870f C08,C14,C07
run 5a70fa2 C09
run e5738bb C10
run 52237ee C01,C05
run 62bc738 C01
run b3c0056 C01,C02,C15
run f3ddf4d C14
run 5011453 C16
run 9fa7537 C18
run c8bd8b1 C19
