#!/usr/bin/env python3
"""Development tool: confirm a sub-agent's seeded change and record it under /verif/seeded/<id>/.

usage: tools/process_seeded.py <PROP> <N> [--checks C07,C08] [--seeds 0,1] [--skip-suite]

Confirms, on scratch worktrees outside /repo and /verif: the patch applies to /repo HEAD; the demo exits 0 without and non-zero
with the patch; the repository's own suite still passes with the patch; then runs the given quick checks against the patched tree
and writes seeded/<PROP>-<N>/{patch.diff,demo.py,meta.json}.
"""
import argparse
import json
import os
import shutil
import subprocess
import sys
import tempfile
import time

VERIF = os.path.dirname(os.path.dirname(os.path.abspath(__file__)))


def sh(cmd, timeout=None, env=None, cwd=None):
    return subprocess.run(cmd, shell=True, capture_output=True, text=True, timeout=timeout, env=env, cwd=cwd)


def main():
    ap = argparse.ArgumentParser()
    ap.add_argument("prop")
    ap.add_argument("n", type=int)
    ap.add_argument("--checks", default=None)
    ap.add_argument("--seeds", default="0,1")
    ap.add_argument("--skip-suite", action="store_true")
    ap.add_argument("--jobs", type=int, default=8)
    a = ap.parse_args()
    out = "/tmp/mut_%s_out" % a.prop
    patch = os.path.join(out, "patch%d.diff" % a.n)
    demo = os.path.join(out, "demo%d.py" % a.n)
    checks = (a.checks or a.prop).split(",")
    meta = {"property": a.prop, "variant": a.n, "source": "independent sub-agent given only the property text and a scratch worktree",
            "head": sh("git -C /repo rev-parse --short HEAD").stdout.strip(), "confirmed": {}}
    wt = tempfile.mkdtemp(prefix="seed_%s_%d_" % (a.prop, a.n), dir="/tmp")
    os.rmdir(wt)
    r = sh("git -C /repo worktree add --detach %s HEAD" % wt)
    assert r.returncode == 0, r.stderr
    try:
        env = dict(os.environ)
        env.pop("DESOLVER_VERIF", None)
        env["PYTHONDONTWRITEBYTECODE"] = "1"
        # demo on the pristine tree
        r0 = sh("PYTHONPATH=%s /venv/bin/python %s" % (wt, demo), timeout=1800, env=env, cwd=wt)
        meta["confirmed"]["demo_exit_unpatched"] = r0.returncode
        r = sh("git -C %s apply %s" % (wt, patch))
        meta["confirmed"]["patch_applies"] = r.returncode == 0
        if r.returncode:
            print("PATCH DOES NOT APPLY", r.stderr)
            print(json.dumps(meta, indent=1))
            return 1
        r1 = sh("PYTHONPATH=%s /venv/bin/python %s" % (wt, demo), timeout=1800, env=env, cwd=wt)
        meta["confirmed"]["demo_exit_patched"] = r1.returncode
        meta["confirmed"]["demo_tail_patched"] = (r1.stdout + r1.stderr)[-300:]
        if not a.skip_suite:
            t0 = time.time()
            rs = sh("/venv/bin/python -m pytest -q -p no:cacheprovider --timeout=900 -n %d 2>&1 | tail -2" % a.jobs, timeout=3600, env=env, cwd=wt)
            meta["confirmed"]["suite_with_patch"] = rs.stdout.strip().splitlines()[0] if rs.stdout.strip() else rs.stderr[-200:]
            meta["confirmed"]["suite_wall_s"] = round(time.time() - t0)
        res = {}
        for pid in checks:
            for seed in [int(s) for s in a.seeds.split(",")]:
                e2 = dict(os.environ, VERIF_JOBS=str(a.jobs), VERIF_NO_EVIDENCE="1")
                rc = subprocess.run(["./check", pid, "--seed", str(seed), "--repo", wt], cwd=VERIF, env=e2, capture_output=True, text=True, timeout=3000)
                first = [l[:300] for l in rc.stdout.splitlines() if l.startswith("  clause=") or l.startswith("INCONCLUSIVE")][:3]
                res["%s quick seed=%d" % (pid, seed)] = {"exit": rc.returncode, "first": first}
        meta["checks_against_patched_tree"] = res
    finally:
        sh("git -C /repo worktree remove --force %s" % wt)
    ok = (meta["confirmed"].get("demo_exit_unpatched") == 0 and meta["confirmed"].get("demo_exit_patched", 0) != 0 and
          (a.skip_suite or "1878 passed" in str(meta["confirmed"].get("suite_with_patch"))))
    meta["kept"] = bool(ok)
    caught = [k for k, v in meta.get("checks_against_patched_tree", {}).items() if v["exit"] == 1]
    meta["caught_by"] = caught
    notes = os.path.join(out, "NOTES.md")
    if os.path.exists(notes):
        txt = open(notes).read()
        meta["agent_notes_excerpt"] = txt[:7000]
    print(json.dumps({k: meta[k] for k in ("property", "variant", "confirmed", "kept", "caught_by")}, indent=1))
    if ok:
        d = os.path.join(VERIF, "seeded", "%s-%d" % (a.prop, a.n))
        os.makedirs(d, exist_ok=True)
        shutil.copy(patch, os.path.join(d, "patch.diff"))
        shutil.copy(demo, os.path.join(d, "demo.py"))
        with open(os.path.join(d, "meta.json"), "w") as fh:
            json.dump(meta, fh, indent=1)
    return 0


if __name__ == "__main__":
    sys.exit(main())
