#!/bin/bash
# Development driver: handcrafted mutants (tools/mutants/*.diff) against the related quick checks.
cd "$(dirname "$0")/.."
run() { python3 tools/mutation_matrix.py --patch tools/mutants/$1.diff --props "$2" --jobs ${JOBS:-6} --out notes/mutation_matrix_handcrafted.json; }
run m01_signed_minimum C05,C03
run m02_keep_error_scale_of_rejected_attempt C05
run m03_rk4_coefficient_third_digit C01,C02
run m04_nfev_counted_before_call C20,C12
run m05_callbacks_before_row_committed C20
run m06_trim_skipped_on_failure C12,C03
run m07_redo_flag_threshold C05
run m08_event_window_half_open C08,C07
run m09_reset_keeps_events C13,C12
run m10_hermite_h11_sign C17,C06
run m11_jacobian_transposed C16
run m12_implicit_zero_mask_dropped C02,C01
run m13_terminal_status_not_set C09
run m14_max_step_not_applied_first C18
