#!/bin/bash
# usage: tools/sweep.sh <tier> "<seeds>" "<property ids>" <logfile>   (development aid: evidence files are left untouched)
TIER=$1; SEEDS=$2; PROPS=$3; LOG=$4
cd /verif
: > "$LOG"
for s in $SEEDS; do for p in $PROPS; do
  echo "== $p seed $s $(date +%T)" >> "$LOG"
  VERIF_NO_EVIDENCE=1 PYTHONHASHSEED=0 ./check $p --tier $TIER --seed $s 2>&1 | grep -v autoray | cut -c1-700 | tail -8 >> "$LOG"
done; done
echo "== done $(date +%T)" >> "$LOG"
