"""./check <ID> [--tier quick|thorough] [--seed N] [--replay FILE] [--jobs N] [-v]"""
import argparse
import os
import sys


def main(argv=None):
    ap = argparse.ArgumentParser()
    ap.add_argument("pid")
    ap.add_argument("--tier", default=os.environ.get("VERIF_TIER", "quick"), choices=["quick", "thorough"])
    ap.add_argument("--seed", type=int, default=int(os.environ.get("VERIF_SEED", "0") or 0))
    ap.add_argument("--replay", default=None)
    ap.add_argument("--jobs", type=int, default=None)
    ap.add_argument("--repo", default=None)
    ap.add_argument("-v", "--verbose", action="store_true")
    a = ap.parse_args(argv)
    if a.repo:
        os.environ["DESOLVER_REPO"] = a.repo
    from vf import core
    rc = core.run_check(a.pid.upper(), tier=a.tier, seed=a.seed, replay=a.replay, jobs=a.jobs, verbose=a.verbose)
    sys.exit(rc)


if __name__ == "__main__":
    main()
