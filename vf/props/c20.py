"""C20 - evaluation counters and callbacks are exact."""
import numpy as np

from vf import util, sysrun
from vf.events import Ev
from vf.instrument import StepLog
from vf.problems import Manufactured, rng_for

LEVEL = "exploration"
RULE = ("one case = (method family incl. FSAL / implicit with finite-difference or user Jacobian / splitting / Richardson, events on/off, dense on/off, "
        "rejected steps forced by a large initial dt, optional failure, reset, seed); an independent counter inside the user function (incremented on "
        "completion) must equal system.nfev at every quiescent point and inside every callback; njev must equal the Jacobian requests seen by a class-level "
        "wrapper on DiffRHS.jac (and the user Jacobian's own count); callbacks: order, newest row visible and new, one invocation per recorded step (the "
        "sub-steps of a terminal landing share one), a dt assigned in a callback is the first attempt of the next step; non-trivial = >=3 callback "
        "invocations; distinct by (method, options, seed)")
ASSUMPTIONS = ["njev may count since construction or since the last reset (the statement fixes the reset convention only for nfev)"]
RULE += " Strata added in the fourth seeding round: Richardson wrappers of implicit bases; callbacks that grow the step after every recorded step (assignment following a rejected attempt)."
FLOORS = {"quick": {"runs": 120, "callback_invocations": 1500, "nfev_checks": 1500, "njev_checks": 100, "runs_with_rejections": 20, "runs_with_failure": 15, "runs_with_reset": 30,
                    "dt_assignments_checked": 150, "terminal_landings": 10, "facade_runs": 20, "dt_assignments_across_calls": 20, "shared_rhs_runs": 14, "grown_dt_runs_with_rejections": 6, "richardson_of_implicit_runs": 3},
          "thorough": {"runs": 1200, "callback_invocations": 15000, "nfev_checks": 15000, "njev_checks": 1000, "runs_with_rejections": 200, "runs_with_failure": 150,
                       "runs_with_reset": 300, "dt_assignments_checked": 1500, "terminal_landings": 100, "facade_runs": 200, "dt_assignments_across_calls": 200, "shared_rhs_runs": 140, "grown_dt_runs_with_rejections": 36, "richardson_of_implicit_runs": 18}}
METHODS = ["RK45CKSolver", "DOPRI45", "RK4Solver", "EulerSolver", "HeunEulerSolver", "ABAs5o6HSolver", "SymplecticEulerSolver", "BackwardEuler", "RadauIIA5",
           "GaussLegendre4", "LobattoIIIA2", "CrankNicolson", "RK8713MSolver", "R:MidpointSolver:3", "R:EulerSolver:4", "R:RK4Solver:2"]
CASE_TIMEOUT = 900


class Fault(Exception):
    pass


def gen_cases(tier, seed):
    rng = rng_for(2001, seed)
    cases = []
    for i in range(150 if tier == "quick" else 1500):
        m = METHODS[i % len(METHODS)]
        cases.append(dict(method=m, direction=int(rng.choice([-1, 1])), dense=bool(rng.random() < 0.4), events=str(rng.choice(["none", "none", "nonterminal", "terminal"])),
                          user_jac=bool(rng.random() < 0.5), big_dt=bool(rng.random() < 0.35), fail_at=(int(rng.integers(20, 200)) if rng.random() < 0.2 else None),
                          reset=bool(rng.random() < 0.35), set_dt=bool(rng.random() < 0.6), pseed=int(rng.integers(1 << 30)), cost=3))
    # designed strata (own random stream): a callback that GROWS the step after every recorded step (adaptive methods then reject and retry the
    # attempt, and the next assignment is again longer than what the controller proposes after a rejection) - the assigned step must still be the
    # first attempt of the next step; Richardson wrappers of IMPLICIT bases (each level steps the basis method on the same wrapped rhs:
    # all of those evaluations and Jacobian requests belong to the system's counters)
    rng2 = rng_for(2003, seed)
    for rep in range(1 if tier == "quick" else 6):
        for m in ["RK45CKSolver", "DOPRI45", "HeunEulerSolver", "RK8713MSolver", "RadauIIA5", "RK4Solver", "LobattoIIIC4"]:
            for d in (1, -1):
                cases.append(dict(method=m, direction=d, dense=bool(rng2.random() < 0.3), events="none", user_jac=bool(rng2.random() < 0.5), big_dt=False, fail_at=None,
                                  reset=bool(rng2.random() < 0.3), set_dt="grow", pseed=int(rng2.integers(1 << 30)), cost=4))
        for m in ["R:ImplicitMidpoint:2", "R:BackwardEuler:3", "R:CrankNicolson:2"]:
            cases.append(dict(method=m, direction=int(rng2.choice([-1, 1])), dense=bool(rng2.random() < 0.3), events=str(rng2.choice(["none", "nonterminal"])),
                              user_jac=bool(rng2.random() < 0.5), big_dt=False, fail_at=None, reset=bool(rng2.random() < 0.5), set_dt=False, L=0.5, rtol=1e-4,
                              pseed=int(rng2.integers(1 << 30)), cost=20))
    plain = [m for m in METHODS if not m.startswith("R:")]
    for i in range(24 if tier == "quick" else 240):
        # the functional facade with t_eval (one integrate call per output time) and user callbacks: counters and the dt-assignment clause
        # across the boundaries of those calls
        cases.append(dict(kind="facade", method=plain[i % len(plain)], direction=int(rng.choice([-1, 1])), n_eval=int(rng.integers(2, 7)), dense=bool(rng.random() < 0.3),
                          pseed=int(rng.integers(1 << 30)), cost=4))
    for i in range(16 if tier == "quick" else 160):
        # several systems built from ONE wrapped right-hand side: every system counts its own evaluations
        cases.append(dict(kind="shared_rhs", method=plain[(3 * i) % len(plain)], method2=plain[(3 * i + 1 + i % 5) % len(plain)], direction=int(rng.choice([-1, 1])),
                          wrap=str(rng.choice(["DiffRHS", "prettifier"])), user_jac=bool(rng.random() < 0.5), pseed=int(rng.integers(1 << 30)), cost=4))
    return cases


def _facade(spec):
    import desolver as de
    M = util.methods()
    info = M[spec["method"]]
    d = spec["direction"]
    prob = Manufactured(2, spec["pseed"], direction=d)
    rng = rng_for(2003, spec["pseed"])
    t0, L = 0.1, 2.0
    tf = t0 + d * L
    cnt = {"f": 0}

    def f(t, y, **kw):
        out = prob.rhs(t, y)
        cnt["f"] += 1
        return out
    rec = util.Rec(sig="facade|%s|%d|%d|%s|%d" % (spec["method"], d, spec["n_eval"], spec["dense"], spec["pseed"] % 17))
    feats = {"kind": "facade", "method": spec["method"], "family": info["family"], "direction": d, "dense": spec["dense"]}
    t_eval = sorted(float(x) for x in (t0 + d * L * rng.uniform(0.1, 1.0, spec["n_eval"])))
    tev = set(t_eval)
    calls = []
    assigned = {}      # row count at assignment -> (assigned dt, row time is an output time)
    slogs = []

    def cb1(s):
        if not slogs:
            slogs.append(StepLog(s.integrator))       # (installed at the first callback: the facade owns the system)
        calls.append((1, len(s), s.nfev, cnt["f"], float(s.t[-1])))

    def cb2(s):
        calls.append((2, len(s), s.nfev, cnt["f"], float(s.t[-1])))
        at_output = any(abs(float(s.t[-1]) - e_) <= 64 * 2.3e-16 * max(1.0, abs(e_)) for e_ in tev)     # (a call lands on its target to rounding)
        if at_output or len(s) % 3 == 0:
            # magnitudes cycle over fractions of the initial step (a geometric halving would never reach the target with a fixed-step method)
            mag = (L / 16.0) * (0.5, 0.8, 0.65, 1.0)[len(assigned) % 4]
            s.dt = float(np.sign(float(s.dt))) * mag
            assigned[len(s)] = (float(s.dt), at_output)
    try:
        res = de.solve_ivp(f, (t0, tf), prob.ystar(t0).astype(np.float64), method=info["cls"], t_eval=np.array(t_eval), dense_output=spec["dense"], first_step=L / 16.0,
                           rtol=1e-6, atol=1e-8, callbacks=[cb1, cb2])
    except Exception as e:
        if type(e).__name__ in ("CaseTimeout", "NoProgress") or type(getattr(e, "__cause__", None)).__name__ in ("CaseTimeout", "NoProgress"):
            raise
        rec.violate("facade_raised", type(getattr(e, "__cause__", None) or e).__name__, feats, err=repr(e)[:300])
        return rec.out()
    system = res.ode_system
    rec.bump("facade_runs")
    rec.bump("nfev_checks")
    if system.nfev != cnt["f"] or res.nfev != system.nfev:
        rec.violate("nfev", "nfev_differs_from_completed_calls", dict(feats, where="facade"), nfev=system.nfev, result_nfev=res.nfev, completed=cnt["f"])
    if res.njev != system.njev:
        rec.violate("njev", "facade_njev_differs_from_system", feats, result=res.njev, system=system.njev)
    for (_w, _n, nfev, comp, _t) in calls:
        rec.bump("nfev_checks")
        if nfev != comp:
            rec.violate("nfev", "nfev_inside_callback_differs_from_completed_calls", feats, nfev=nfev, completed=comp)
            break
    rec.bump("callback_invocations", len(calls))
    seq = [c[0] for c in calls]
    if seq != [1, 2] * (len(seq) // 2) or len(seq) % 2:
        rec.violate("callback_order", "callbacks_not_invoked_in_the_order_given", feats, first=seq[:8])
    n = len(system)
    lens = [c[1] for c in calls if c[0] == 1]
    if lens != list(range(2, n + 1)):
        rec.violate("callback_count", "not_exactly_one_invocation_per_recorded_step", feats, invocations=len(lens), steps=n - 1)
    rec.nontrivial = len(calls) >= 6
    # dt assignments: first attempt of the next step, also when the next step belongs to the next integrate() call of the facade
    if slogs:
        t = np.asarray(system.t)
        first_attempt = {}
        for a in slogs[0].attempts:
            first_attempt.setdefault(a["t"], a["h"])
        ends = [x for x in (t_eval if d > 0 else t_eval[::-1])]
        for ln, (dtv, at_output) in assigned.items():
            if ln >= n:
                continue
            t_here = float(t[ln - 1])
            if t_here not in first_attempt:
                continue
            nxt = [e for e in ends if d * (e - t_here) > 64 * 2.3e-16 * max(1.0, abs(e))]
            if not nxt:
                continue
            remaining = abs(nxt[0] - t_here)
            if at_output:
                # a new integrate(t) call starts here: a step longer than the whole call is halved to half the call's span by the library
                want = dtv if abs(dtv) <= remaining else np.sign(dtv) * 0.5 * remaining
                rec.bump("dt_assignments_across_calls")
            else:
                want = dtv if abs(dtv) <= remaining else np.sign(dtv) * remaining
            rec.bump("dt_assignments_checked")
            got = first_attempt[t_here]
            if abs(got - want) > 1e-12 * max(1.0, abs(want)):
                rec.violate("callback_dt", "dt_assigned_in_callback_not_used_for_the_next_step", dict(feats, across_calls=bool(at_output)), assigned=dtv, first_attempt=got, remaining=remaining)
                break
    rec.sample = {"spec": spec, "rows": n, "nfev": int(system.nfev), "callback_invocations": len(calls), "assignments": len(assigned)}
    return rec.out()


def _shared_rhs(spec):
    import desolver as de
    M = util.methods()
    d = spec["direction"]
    prob = Manufactured(2, spec["pseed"], direction=d)
    t0, L = 0.1, 1.5
    tf = t0 + d * L
    cur = {"who": "ctor"}
    cnt = {}
    jcnt = {}

    def f(t, y, **kw):
        out = prob.rhs(t, y)
        cnt[cur["who"]] = cnt.get(cur["who"], 0) + 1
        return out

    def uj(t, y, **kw):
        jcnt[cur["who"]] = jcnt.get(cur["who"], 0) + 1
        return prob.jac(t, y)
    if spec["wrap"] == "DiffRHS":
        wrapped = de.DiffRHS(f)
    else:
        wrapped = de.rhs_prettifier("f(t, y)")(f)
    if spec["user_jac"]:
        wrapped.hook_jacobian_call(uj)
    rec = util.Rec(sig="shared|%s|%s|%d|%s|%s|%d" % (spec["method"], spec["method2"], d, spec["wrap"], spec["user_jac"], spec["pseed"] % 17))
    feats = {"kind": "shared_rhs", "method": spec["method"], "method2": spec["method2"], "direction": d, "wrap": spec["wrap"], "user_jac": spec["user_jac"]}
    y0 = prob.ystar(t0).astype(np.float64)
    systems = {}
    for who, mname in (("A", spec["method"]), ("B", spec["method2"]), ("C", spec["method"])):
        cur["who"] = who
        systems[who] = sysrun.make_system(wrapped, y0.copy(), t0, tf, L / 12.0, M[mname]["cls"], rtol=1e-6, atol=1e-8)

    def check(where):
        for who, s_ in systems.items():
            rec.bump("nfev_checks")
            if s_.nfev != cnt.get(who, 0):
                rec.violate("nfev", "nfev_of_a_system_counts_evaluations_made_through_another_system", dict(feats, where=where, system=who), nfev=int(s_.nfev), own_completed=cnt.get(who, 0),
                            all_completed=dict(cnt))
                return False
            if spec["user_jac"]:
                rec.bump("njev_checks")
                if s_.njev != jcnt.get(who, 0):
                    rec.violate("njev", "njev_of_a_system_counts_requests_made_through_another_system", dict(feats, where=where, system=who), njev=int(s_.njev), own=jcnt.get(who, 0), all=dict(jcnt))
                    return False
        return True
    ok = check("after_construction")
    for who in ("A", "B"):
        if not ok:
            break
        cur["who"] = who
        sysrun.call_integrate(systems[who], max_steps=20000)
        ok = check("after_run_of_" + who)
    if ok:
        cur["who"] = "A"
        systems["A"].reset()
        rec.bump("nfev_checks")
        if systems["A"].nfev != 0:
            rec.violate("nfev", "nfev_not_zero_after_reset", feats, nfev=int(systems["A"].nfev))
        if systems["B"].nfev != cnt.get("B", 0):
            rec.violate("nfev", "reset_of_one_system_changed_the_counter_of_another", feats, nfev_B=int(systems["B"].nfev), own_completed=cnt.get("B", 0))
    rec.bump("shared_rhs_runs")
    rec.nontrivial = cnt.get("A", 0) > 5 and cnt.get("B", 0) > 5
    rec.sample = {"spec": spec, "completed_calls_by_system": dict(cnt), "nfev": {k: int(v.nfev) for k, v in systems.items()}}
    return rec.out()


def run_case(spec):
    if spec.get("kind") == "facade":
        return _facade(spec)
    if spec.get("kind") == "shared_rhs":
        return _shared_rhs(spec)
    import desolver as de
    import desolver.differential_system as ds
    M = util.methods()
    name = spec["method"]
    rich = 0
    if name.startswith("R:"):
        _, base, n = name.split(":")
        info = M[base]
        rich = int(n)
        cls = util.richardson(info["cls"], rich)
    else:
        info = M[name]
        cls = info["cls"]
    d = spec["direction"]
    prob = Manufactured(2, spec["pseed"], direction=d)
    rng = rng_for(2002, spec["pseed"])
    t0 = 0.1
    L = float(spec.get("L", 2.0))
    tf = t0 + d * L
    cnt = {"f": 0, "started": 0, "jac_user": 0, "fail_at": spec["fail_at"]}

    def f(t, y, **kw):
        cnt["started"] += 1
        if cnt["fail_at"] is not None and cnt["started"] == cnt["fail_at"]:
            cnt["fail_at"] = None
            raise Fault("injected")
        out = prob.rhs(t, y)
        cnt["f"] += 1
        return out
    rec = util.Rec(sig="%s|%d|%s|%s|%s|%s|%s|%s|%d" % (name, d, spec["dense"], spec["events"], spec["user_jac"], spec["big_dt"], spec["fail_at"] is not None, spec["reset"], spec["pseed"] % 17))
    feats = {"method": name, "family": info["family"], "richardson": rich, "direction": d, "dense": spec["dense"], "events": spec["events"], "user_jac": spec["user_jac"]}
    # class-level wrapper on DiffRHS.jac: counts Jacobian requests made through ANY route
    jac_requests = {"n": 0}
    orig_jac = ds.DiffRHS.jac

    def counting_jac(self, t, y, *a, **kw):
        out = orig_jac(self, t, y, *a, **kw)
        jac_requests["n"] += 1      # completed requests (a request aborted by a failing rhs is not counted, like nfev)
        return out
    ds.DiffRHS.jac = counting_jac
    try:
        dt0 = L / 20.0 if not spec["big_dt"] else 5.0 * L
        system = sysrun.make_system(f, prob.ystar(t0).astype(np.float64), t0, tf, dt0, cls, dense=spec["dense"], rtol=float(spec.get("rtol", 1e-6)), atol=float(spec.get("rtol", 1e-6)) * 1e-2)
        if rich and not info["explicit"]:
            rec.bump("richardson_of_implicit_runs")
        if spec["user_jac"] and not info["explicit"]:
            def uj(t, y, **kw):
                cnt["jac_user"] += 1
                return prob.jac(t, y)
            system.equ_rhs.hook_jacobian_call(uj)
        rec.bump("nfev_checks")
        if system.nfev != cnt["f"]:
            rec.violate("nfev", "nfev_differs_from_completed_calls_after_construction", feats, nfev=system.nfev, completed=cnt["f"])
        slog = StepLog(system.integrator) if not rich else None
        calls = []          # (which callback, len(system), nfev, completed, t_last)
        assigned = {}       # len(system) at assignment -> assigned dt
        grow = {"n": 0}

        def cb1(s):
            calls.append((1, len(s), s.nfev, cnt["f"], float(s.t[-1])))

        def cb2(s):
            calls.append((2, len(s), s.nfev, cnt["f"], float(s.t[-1])))
            if spec["set_dt"] == "grow":
                newdt = float(np.sign(float(s.dt))) * min(abs(float(s.dt)) * 4.0, L / 3.0)
                s.dt = newdt
                assigned[len(s)] = float(s.dt)
                grow["n"] += 1
            elif spec["set_dt"] and len(s) % 3 == 0:
                newdt = float(s.dt) * 0.5
                s.dt = newdt
                assigned[len(s)] = float(s.dt)
        evs = None
        if spec["events"] != "none":
            e1 = Ev({"kind": "component", "i": 0, "scale": 2.0, "c": float(prob.ystar(t0 + 0.4 * (tf - t0))[0]), "direction": 0, "terminal": False}, 2)
            evs = [e1]
            if spec["events"] == "terminal":
                evs.append(Ev({"kind": "time", "scale": 1.0, "c": t0 + 0.7 * (tf - t0), "direction": 0, "terminal": True}, 2))
        seg = sysrun.call_integrate(system, events=evs, callback=[cb1, cb2], max_steps=20000)
        rec.bump("runs")
        failed = seg["raised"] is not None
        if failed:
            cause = getattr(seg["exc"], "__cause__", None)
            if isinstance(cause, Fault) or isinstance(getattr(cause, "__cause__", None), Fault):
                rec.bump("runs_with_failure")
            else:
                rec.bump("runs_raised_" + type(cause or seg["exc"]).__name__)
        _check_counters(rec, feats, system, cnt, jac_requests, spec, info, "after_run")
        _check_callbacks(rec, feats, system, calls, assigned, slog, spec, info, failed, tf)
        if slog is not None:
            # rejected attempts: more attempts than recorded steps
            if len([a for a in slog.attempts]) > len(system) - 1 + 1:
                rec.bump("runs_with_rejections")
                if spec["set_dt"] == "grow":
                    rec.bump("grown_dt_runs_with_rejections")
        if spec["events"] == "terminal" and system.integration_status.startswith("Integration terminated"):
            rec.bump("terminal_landings")
        if spec["reset"]:
            system.reset()
            rec.bump("runs_with_reset")
            rec.bump("nfev_checks")
            if system.nfev != 0:
                rec.violate("nfev", "nfev_not_zero_after_reset", feats, nfev=system.nfev)
            base = cnt["f"]
            nj_base = jac_requests["n"]
            nj_sys = system.njev
            calls.clear()
            assigned.clear()
            cnt["fail_at"] = None
            if slog is not None:
                slog = StepLog(system.integrator)
            seg2 = sysrun.call_integrate(system, events=evs, callback=[cb1, cb2], max_steps=20000)
            rec.bump("nfev_checks")
            if system.nfev != cnt["f"] - base:
                rec.violate("nfev", "nfev_differs_from_completed_calls_since_reset", feats, nfev=system.nfev, completed=cnt["f"] - base)
            if system.njev not in (jac_requests["n"], jac_requests["n"] - nj_base):
                rec.violate("njev", "njev_differs_from_jacobian_requests", dict(feats, phase="after_reset"), njev=system.njev, since_construction=jac_requests["n"], since_reset=jac_requests["n"] - nj_base)
            _check_callbacks(rec, feats, system, calls, assigned, slog, spec, info, seg2["raised"] is not None, tf, base=base)
        rec.nontrivial = len(calls) >= 6
        rec.sample = {"spec": spec, "rows": len(system), "nfev": int(system.nfev), "njev": int(system.njev), "jacobian_requests": jac_requests["n"], "user_jac_calls": cnt["jac_user"],
                      "callback_invocations": len(calls)}
    finally:
        ds.DiffRHS.jac = orig_jac
    return rec.out()


def _check_counters(rec, feats, system, cnt, jac_requests, spec, info, where):
    rec.bump("nfev_checks")
    if system.nfev != cnt["f"]:
        rec.violate("nfev", "nfev_differs_from_completed_calls", dict(feats, where=where), nfev=system.nfev, completed=cnt["f"], started=cnt["started"])
    rec.bump("njev_checks")
    if system.njev != jac_requests["n"]:
        rec.violate("njev", "njev_differs_from_jacobian_requests", dict(feats, where=where), njev=system.njev, requests=jac_requests["n"])
    if spec["user_jac"] and not info["explicit"]:
        if cnt["jac_user"] != jac_requests["n"]:
            rec.violate("njev", "user_jacobian_call_count_differs_from_requests", dict(feats, where=where), user_calls=cnt["jac_user"], requests=jac_requests["n"])


def _check_callbacks(rec, feats, system, calls, assigned, slog, spec, info, failed, tf, base=0):
    n = len(system)
    rec.bump("callback_invocations", len(calls))
    # inside every callback: nfev == completed calls since construction / the last reset
    for (_w, _n, nfev, comp, _t) in calls:
        rec.bump("nfev_checks")
        if nfev != comp - base:
            rec.violate("nfev", "nfev_inside_callback_differs_from_completed_calls", feats, nfev=nfev, completed=comp - base)
            break
    # order: cb1 then cb2, strictly alternating
    seq = [c[0] for c in calls]
    if seq != [1, 2] * (len(seq) // 2) or len(seq) % 2:
        if not (failed and seq[:len(seq) - len(seq) % 2] == [1, 2] * (len(seq) // 2)):
            rec.violate("callback_order", "callbacks_not_invoked_in_the_order_given", feats, first=seq[:8])
    c1 = [c for c in calls if c[0] == 1]
    prev_len = 1
    for (w, ln, nfev, comp, tl) in c1:
        if ln <= prev_len:
            rec.violate("callback_visibility", "no_new_row_visible_at_callback", feats, len_now=ln, len_prev=prev_len)
            break
        prev_len = ln
    # one invocation per recorded step; the sub-steps of a terminal landing share the final one
    lens = [c[1] for c in c1]
    steps_recorded = n - 1
    if spec["events"] == "terminal" and system.integration_status.startswith("Integration terminated"):
        # every invocation but the last advances by exactly one row
        adv = np.diff([1] + lens)
        if len(adv) and (np.any(adv[:-1] != 1) or adv[-1] < 1):
            rec.violate("callback_count", "not_one_invocation_per_recorded_step_before_the_terminal_landing", feats, advances=[int(x) for x in adv[-6:]])
        if lens and lens[-1] != n:
            rec.violate("callback_count", "terminal_landing_rows_not_covered_by_the_final_invocation", feats, last_seen=lens[-1], rows=n)
    elif not failed:
        if len(c1) != steps_recorded or lens != list(range(2, n + 1)):
            rec.violate("callback_count", "not_exactly_one_invocation_per_recorded_step", feats, invocations=len(c1), steps=steps_recorded)
    else:
        # (a failure inside a terminal landing leaves landing sub-steps recorded whose shared invocation never came)
        ok_count = len(lens) == steps_recorded or (spec["events"] == "terminal" and len(lens) <= steps_recorded)
        if lens != list(range(2, 2 + len(lens))) or not ok_count:
            rec.violate("callback_count", "not_exactly_one_invocation_per_recorded_step_before_the_failure", feats, invocations=len(c1), steps=steps_recorded)
    # a dt assigned in a callback is the first attempt of the next step
    if slog is not None and assigned:
        t = np.asarray(system.t)
        # attempts grouped by their start time; first attempt from the row at which the dt was assigned
        first_attempt = {}
        for a in slog.attempts:
            first_attempt.setdefault(a["t"], a["h"])
        for ln, dtv in assigned.items():
            if ln >= n:
                continue      # assigned at the last row: no further step
            t_here = float(t[ln - 1])
            remaining = abs(float(tf) - t_here)
            if t_here not in first_attempt:
                continue
            rec.bump("dt_assignments_checked")
            want = dtv if abs(dtv) <= remaining else np.sign(dtv) * remaining
            got = first_attempt[t_here]
            if abs(got - want) > 1e-12 * max(1.0, abs(want)):
                rec.violate("callback_dt", "dt_assigned_in_callback_not_used_for_the_next_step", feats, assigned=dtv, first_attempt=got, remaining=remaining)
                break
            if not info["adaptive"] and info["explicit"] and abs(dtv) <= remaining:
                rec_step = float(t[ln] - t[ln - 1])
                if abs(rec_step - dtv) > 1e-12 * max(1.0, abs(dtv)):
                    rec.violate("callback_dt", "next_recorded_step_of_fixed_step_method_differs_from_assigned_dt", feats, assigned=dtv, recorded=rec_step)
                    break
