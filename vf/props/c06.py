"""C06 - dense output is a consistent continuous extension of the computed trajectory."""
import numpy as np

from vf import util, sysrun
from vf.problems import TimeScaled, Manufactured, dtype_of, rng_for
from vf.instrument import StepLog

LEVEL = "exploration"
RULE = ("one case = (method or Richardson wrapper, direction, history shape, dt/tolerance, seed); after every integrate() return/raise the live "
        "DenseOutput is checked structurally (sorted t_eval aligned with contiguous pieces whose end points are exactly the recorded times) and "
        "behaviourally (sol(t_i) bit-equal y_i, queries answered by the containing piece, array = stacked scalar queries, end slopes = f at the "
        "recorded states, interior error within the cubic-Hermite bound, grad vs exact derivative); non-trivial = >=5 pieces; distinct by "
        "(method, direction, history, seed)")
ASSUMPTIONS = ["interior bound: 4*(h^4*max|y''''|/384 + node error*(1+h*L)) + rounding; Richardson wrappers are compared at K*tolerance"]
RULE += " Strata added in the fourth seeding round: Histories in which the caller edits the newest recorded state in place between two calls."
FLOORS = {"quick": {"quiescent_checks": 150, "pieces_checked": 2000, "queries_checked": 8000, "backward_runs_10_pieces": 20, "post_terminal_objects": 10,
                    "post_failure_objects": 10, "splitting_runs": 4, "richardson_runs": 3, "failures_inside_a_retry": 3, "richardson_runs_6_or_more_levels": 6, "time_scaled_runs": 9, "near_node_queries": 2000, "state_edits_between_calls": 16},
          "thorough": {"quiescent_checks": 800, "pieces_checked": 20000, "queries_checked": 50000, "backward_runs_10_pieces": 90, "post_terminal_objects": 50,
                       "post_failure_objects": 50, "splitting_runs": 40, "richardson_runs": 30, "failures_inside_a_retry": 10, "richardson_runs_6_or_more_levels": 20, "time_scaled_runs": 50, "near_node_queries": 20000, "state_edits_between_calls": 60}}
HISTORIES = ["single", "split", "terminal_continue", "fail_resume", "events_nonterminal", "query_between", "fail_in_retry"]
QUICK_METHODS = ["RK45CKSolver", "DOPRI45", "RK4Solver", "EulerSolver", "HeunEulerSolver", "RK8713MSolver", "ABAs5o6HSolver", "SymplecticEulerSolver",
                 "BABs9o7HSolver", "BackwardEuler", "RadauIIA5", "GaussLegendre4", "CrankNicolson", "LobattoIIIC4", "MidpointSolver", "RK108Solver"]
CASE_TIMEOUT = 900
K = 64


class Fault(Exception):
    pass


def gen_cases(tier, seed):
    M = util.methods()
    rng = rng_for(601, seed)
    names = QUICK_METHODS if tier == "quick" else list(M)
    cases = []
    for name in names:
        info = M[name]
        hs = list(HISTORIES)
        for d in (1, -1):
            pick = hs if tier == "thorough" else [hs[int(i)] for i in rng.choice(len(hs), size=3, replace=False)]
            for h in pick:
                L = float(rng.uniform(1.5, 4.0))
                t0 = float(rng.uniform(-3, 3))
                dtn = "float64"
                rr = rng.random()
                if rr < 0.12:
                    dtn = "float32"
                elif rr < 0.22 and (info["explicit"] or info["stages"] <= 3):
                    dtn = "longdouble"
                cases.append(dict(method=name, rich=0, direction=d, history=h, t0=t0, tf=t0 + d * L, nsteps=float(rng.uniform(12, 40)),
                                  rtol=10 ** float(rng.uniform(-8, -4)) if dtn != "float32" else 10 ** float(rng.uniform(-4, -3)), dtype=dtn, pseed=int(rng.integers(1 << 30)),
                                  cost=(2 if info["explicit"] else 15) * (4 if dtn == "longdouble" else 1)))
    for base, n in ([("EulerSolver", 3), ("RK4Solver", 3), ("MidpointSolver", 4)] if tier == "quick" else
                    [("EulerSolver", 3), ("RK4Solver", 3), ("MidpointSolver", 4), ("HeunsSolver", 2), ("RK45CKSolver", 3), ("ImplicitMidpoint", 3)]):
        for d in (1, -1):
            for h in (["single", "split", "terminal_continue"] if tier == "quick" else ["single", "split", "terminal_continue", "events_nonterminal", "fail_resume"]):
                L = float(rng.uniform(1.0, 2.0))
                t0 = float(rng.uniform(-3, 3))
                cases.append(dict(method=base, rich=n, direction=d, history=h, t0=t0, tf=t0 + d * L, nsteps=20.0, rtol=10 ** float(rng.uniform(-7, -4)),
                                  pseed=int(rng.integers(1 << 30)), cost=10))
    # Richardson wrappers with many levels: the extrapolation converges before the last level on most steps (pieces must still cover the step)
    for base, n in [("RK4Solver", 6), ("MidpointSolver", 7), ("RK4Solver", 7), ("HeunsSolver", 6)] + ([] if tier == "quick" else [("RK5Solver", 6), ("MidpointSolver", 6), ("RalstonsSolver", 7)]):
        for d in (1, -1):
            for h in (["single"] if tier == "quick" else ["single", "split", "terminal_continue"]):
                L = float(rng.uniform(2.0, 5.0))
                t0 = float(rng.uniform(-3, 3))
                cases.append(dict(method=base, rich=n, direction=d, history=h, t0=t0, tf=t0 + d * L, nsteps=6.0, rtol=10 ** float(rng.uniform(-12, -9)),
                                  pseed=int(rng.integers(1 << 30)), cost=40))
    # the same trajectories on compressed / stretched time axes (steps of 1e-10 .. 1e+7 time units): nothing in the dense output may be absolute in t
    for name in (["RK4Solver", "RK45CKSolver", "RadauIIA5"] if tier == "quick" else ["RK4Solver", "RK45CKSolver", "RadauIIA5", "DOPRI45", "ABAs5o6HSolver", "GaussLegendre4", "EulerSolver"]):
        for tau in ((1e-9, 1e6) if tier == "quick" else (1e-9, 1e-6, 1e-3, 1e6, 1e9)):
            for d in (1, -1):
                L = float(rng.uniform(1.5, 4.0))
                t0 = float(rng.uniform(-3, 3))
                cases.append(dict(method=name, rich=0, direction=d, history=str(rng.choice(["single", "split", "terminal_continue"])), t0=t0 * tau, tf=(t0 + d * L) * tau, tau=tau,
                                  nsteps=float(rng.uniform(12, 40)), rtol=10 ** float(rng.uniform(-8, -4)), dtype="float64", pseed=int(rng.integers(1 << 30)),
                                  cost=(2 if M[name]["explicit"] else 15)))
    # the caller edits the newest recorded state in place between two calls (an impulse; integrate()'s documentation names "manipulating the state of
    # the system" as a use of callbacks): the next piece starts at the edited state with the slope of the edited state
    rng3 = rng_for(603, seed)
    for name in names:
        for d in (1, -1):
            if tier == "quick" and rng3.random() < 0.35:
                continue
            L = float(rng3.uniform(1.5, 4.0))
            t0 = float(rng3.uniform(-3, 3))
            cases.append(dict(method=name, rich=0, direction=d, history="state_edit", t0=t0, tf=t0 + d * L, nsteps=float(rng3.uniform(12, 40)),
                              rtol=10 ** float(rng3.uniform(-8, -4)), dtype="float64", pseed=int(rng3.integers(1 << 30)), cost=(2 if M[name]["explicit"] else 12)))
    return cases


def _is_substep_chain(pieces, t, y, k, v, d):
    """Structural attribution of KF09: the pieces inside recorded step k form a contiguous chain that STARTS (to a few ulp) at the recorded
    state y[k-1], and sol(t[k]) is the end of that chain (the finest un-extrapolated sub-step result) - so the mismatch with the recorded,
    extrapolated y[k] is exactly what the extrapolation gained. Anything else (missing pieces, a wrong piece answering) is not KF09."""
    if k < 1:
        return False
    lo, hi = sorted([float(t[k - 1]), float(t[k])])
    span = hi - lo
    inside = []
    for p in pieces:
        a, b = float(p.t0), float(p.t1)
        if min(a, b) >= lo - 1e-9 * span and max(a, b) <= hi + 1e-9 * span:
            if d * (b - a) > 0:
                inside.append((a, np.asarray(p.p0), b, np.asarray(p.p1)))
            else:
                inside.append((b, np.asarray(p.p1), a, np.asarray(p.p0)))
    if not inside:
        return False
    inside.sort(key=lambda q: d * q[0])
    ulps = 8 * float(np.finfo(np.asarray(y).dtype).eps) * (1 + float(np.max(np.abs(y[k]))))     # sub-step times and states are accumulated: a few ulp

    def same(u, w):
        return bool(np.max(np.abs(np.asarray(u, dtype=np.longdouble) - np.asarray(w, dtype=np.longdouble))) <= ulps)
    tulp = 8 * 2.3e-16 * max(abs(lo), abs(hi), span)
    if abs(inside[0][0] - float(t[k - 1])) > tulp or not same(inside[0][1], y[k - 1]):
        return False
    for q0, q1 in zip(inside[:-1], inside[1:]):
        if abs(q0[2] - q1[0]) > tulp or not same(q0[3], q1[1]):
            return False
    if abs(inside[-1][2] - float(t[k])) > 1e-9 * span:
        return False
    return bool(np.max(np.abs(np.asarray(v) - inside[-1][3])) <= 1e-12 * (1 + float(np.max(np.abs(y[k])))))


def _check_dense(rec, system, prob, spec, info, feats, f, label, rng):
    """Structural + behavioural oracle at a quiescent point."""
    rec.bump("quiescent_checks")
    t = np.asarray(system.t)
    y = np.asarray(system.y)
    f2 = dict(feats, at=label)
    ok = sysrun.dense_structure(rec, system, f2, expect_times=t if len(t) > 1 else [], K=K, substeps=bool(spec["rich"]),
                                 time_eps=(None if y.dtype == np.float64 else float(np.finfo(y.dtype).eps)))
    sol = system.sol
    if sol is None or sol.t_eval is None or len(sol.y_interpolants) == 0:
        return
    pieces = sol.y_interpolants
    rec.bump("pieces_checked", len(pieces))
    dt_ = y.dtype
    eps = float(np.finfo(dt_).eps)
    rich = bool(spec["rich"])
    tolu = spec["rtol"] * (1 + float(np.max(np.abs(y))))
    # (1) recorded states reproduced
    idx = list(range(len(t))) if len(t) <= 60 else sorted(set(int(i) for i in np.linspace(0, len(t) - 1, 60)))
    for k in idx:
        if k in getattr(rec, "edited_rows", ()):
            continue      # (the caller put a jump there: the piece before ends at the old state, the piece after starts at the new one)
        try:
            v = sol(t[k])
        except Exception as e:
            rec.violate("dense_query_raised", type(e).__name__, f2, t=float(t[k]))
            return
        rec.bump("queries_checked")
        if rich:
            err = float(np.max(np.abs(v - y[k])))
            rec.worst("richardson_node_error_over_tol", err / tolu)
            if err > 10 * tolu:
                # attribution: pieces are built from the finest UNextrapolated sub-steps, so they miss the recorded
                # (extrapolated) state by the base method's error; anything grosser is something else
                mech = "richardson_pieces_from_unextrapolated_substeps" if _is_substep_chain(pieces, t, y, k, v, spec["direction"]) else "richardson_dense_off_and_not_a_substep_chain"
                rec.violate("dense_node_value", mech, f2, k=k, err=err, tol=tolu)
                break
        elif dt_ == np.float64 and not np.array_equal(v, y[k]):
            rec.violate("dense_node_value", "sol_at_recorded_time_differs_from_recorded_state", f2, k=k, t=float(t[k]), err=float(np.max(np.abs(v - y[k]))))
            break
        elif dt_ != np.float64:
            # other precisions: implicit methods carry float64 increments inside their pieces; agreement to the rounding of the run's dtype
            errn = float(np.max(np.abs(np.asarray(v, dtype=np.longdouble) - y[k].astype(np.longdouble))))
            if errn > 8 * max(eps, 1.1e-16) * (1 + float(np.max(np.abs(y[k])))) * (1 + prob.lipschitz() * 0):
                rec.violate("dense_node_value", "sol_at_recorded_time_differs_from_recorded_state", dict(f2, dtype=str(dt_)), k=k, t=float(t[k]), err=errn)
                break
    # (2) queries answered by the containing piece; scalar vs array agreement
    lo, hi = float(min(t[0], t[-1])), float(max(t[0], t[-1]))
    if rich:
        lo = min(min(float(p.t0), float(p.t1)) for p in pieces)
        hi = max(max(float(p.t0), float(p.t1)) for p in pieces)
    qs = rng.uniform(lo, hi, 40)
    qs = np.concatenate([qs, [lo, hi], 0.5 * (t[:-1] + t[1:])[:20].astype(float)]).astype(dt_)
    wrong = 0
    for q in qs:
        i = sol.find_interval(q)
        p = pieces[i]
        a, b = sorted([float(p.t0), float(p.t1)])
        rec.bump("queries_checked")
        if not (a <= float(q) <= b):
            wrong += 1
            if wrong == 1:
                first = dict(q=float(q), piece=[a, b], index=int(i))
    if wrong:
        mech = "backward_lookup_picks_neighbour" if spec["direction"] < 0 else "lookup_picks_piece_not_containing_query"
        rec.violate("dense_piece_choice", mech, f2, wrong=wrong, of=len(qs), first=first)
    iv = np.asarray(sol.find_interval_vec(qs.copy()))
    is_ = np.array([sol.find_interval(q) for q in qs])
    if not np.array_equal(iv, is_):
        rec.violate("dense_vec_scalar", "find_interval_vec_differs_from_scalar", f2, n=int(np.sum(iv != is_)))
    try:
        va = np.asarray(sol(qs))
        vs = np.stack([np.asarray(sol(q)) for q in qs])
        if va.shape != vs.shape or not np.array_equal(va, vs):
            rec.violate("dense_vec_scalar", "array_query_differs_from_stacked_scalar_queries", f2, shapes=[list(va.shape), list(vs.shape)])
    except Exception as e:
        rec.violate("dense_query_raised", type(e).__name__, f2, where="array query")
    # (3) end slopes = f at the piece's own end states (bit-equal for deterministic f; rounding level accepted)
    pidx = list(range(len(pieces))) if len(pieces) <= 40 else sorted(set(int(i) for i in np.linspace(0, len(pieces) - 1, 40)))
    Lip = prob.lipschitz()
    for i in pidx:
        p = pieces[i]
        for (tt, pp, mm, nm) in ((p.t0, p.p0, p.m0, "m0"), (p.t1, p.p1, p.m1, "m1")):
            if mm is None:
                rec.violate("dense_slope", "missing_end_slope", dict(f2, which=nm), piece=i)
                continue
            fv = f(tt, pp)
            err = float(np.max(np.abs(np.asarray(mm, dtype=np.longdouble) - np.asarray(fv, dtype=np.longdouble))))
            unit = K * eps * (1 + float(np.max(np.abs(fv)))) * (1 + Lip)
            rec.worst("slope_defect_over_unit", err / unit)
            if err > unit:
                rec.violate("dense_slope", "end_slope_differs_from_rhs_at_recorded_state", dict(f2, which=nm), piece=i, err=err, unit=unit, t=float(tt))
                break
        else:
            continue
        break
    # (4) interior accuracy against the exact solution + gradient
    d4 = prob.d4ystar_max()
    worst_int = 0.0
    for i in pidx:
        p = pieces[i]
        a, b = float(p.t0), float(p.t1)
        h = abs(b - a)
        node = max(float(np.max(np.abs(np.asarray(p.p0, dtype=np.longdouble) - prob.ystar(a)))),
                   float(np.max(np.abs(np.asarray(p.p1, dtype=np.longdouble) - prob.ystar(b)))))
        bound = 4 * (h ** 4 * d4 / 384.0 + node * (1 + h * Lip) * 2) + K * eps * 4
        for th in (1e-6, 0.25, 0.5, 0.8, 1 - 1e-6):
            q = np.asarray(a + th * (b - a), dtype=dt_)
            v = np.asarray(p(q), dtype=np.longdouble)
            e = float(np.max(np.abs(v - prob.ystar(float(q)))))
            worst_int = max(worst_int, e / bound)
            if e > bound:
                rec.violate("dense_interior_error", "interior_error_beyond_cubic_hermite_bound", f2, piece=i, err=e, bound=bound, h=h, node=node)
                break
            g = np.asarray(p.grad(q), dtype=np.longdouble)
            eg = float(np.max(np.abs(g - prob.dystar(float(q)))))
            gb = 4 * (h ** 3 * d4 / 24.0 + node * (Lip + 4.0 / max(h, 1e-300))) + K * eps * 8 * (1 + 1 / max(h, 1e-300))
            if eg > gb:
                rec.violate("dense_gradient", "grad_differs_from_exact_derivative", f2, piece=i, err=eg, bound=gb, h=h)
                break
        else:
            continue
        break
    rec.worst("interior_error_over_bound", worst_int)
    # (5) "end slopes" means what it says: just inside a node the piece leaves its end state along its end slope,
    #     p(t_node + delta) = p_node + m_node*delta + O(delta^2) (a dense output that is flat, or answers with a neighbour, next to a node fails here)
    for i in pidx:
        p = pieces[i]
        a, b = float(p.t0), float(p.t1)
        h = b - a
        if h == 0 or p.m0 is None or p.m1 is None:
            continue
        p0l, p1l = np.asarray(p.p0, dtype=np.longdouble), np.asarray(p.p1, dtype=np.longdouble)
        m0l, m1l = np.asarray(p.m0, dtype=np.longdouble), np.asarray(p.m1, dtype=np.longdouble)
        scale = float(np.max(np.abs(p1l - p0l))) + abs(h) * (float(np.max(np.abs(m0l))) + float(np.max(np.abs(m1l))))
        al, bl = np.asarray(p.t0, dtype=np.longdouble), np.asarray(p.t1, dtype=np.longdouble)
        for (tn, pn, mn, th) in ((al, p0l, m0l, 1e-6), (bl, p1l, m1l, -1e-6), (al, p0l, m0l, 1e-3), (bl, p1l, m1l, -1e-3)):
            q = np.asarray(tn + np.longdouble(th) * (bl - al), dtype=dt_)
            delta = np.asarray(q, dtype=np.longdouble) - tn      # the offset actually used, after rounding q to the run's precision
            if delta == 0:
                continue
            v = np.asarray(p(q), dtype=np.longdouble)
            defect = float(np.max(np.abs(v - pn - mn * delta)))
            bound = 8 * float(delta / h) ** 2 * scale + 16 * eps * (1 + float(np.max(np.abs(pn)))) + 4 * eps * scale
            rec.bump("near_node_queries")
            rec.worst("near_node_defect_over_bound", defect / bound)
            if defect > bound:
                rec.violate("dense_near_node", "piece_does_not_leave_its_end_state_along_its_end_slope", dict(f2, theta=abs(th)), piece=i, defect=defect, bound=bound, h=abs(h), delta=float(delta))
                break
        else:
            continue
        break


def run_case(spec):
    M = util.methods()
    info = M[spec["method"]]
    cls = info["cls"] if not spec["rich"] else util.richardson(info["cls"], spec["rich"])
    d = spec["direction"]
    t0, tf = spec["t0"], spec["tf"]
    dt_ = dtype_of(spec.get("dtype", "float64"))
    dim = 2
    prob = Manufactured(dim, spec["pseed"], direction=d)
    if spec.get("tau"):
        prob = TimeScaled(prob, spec["tau"])
    rng = rng_for(602, spec["pseed"])
    label = spec["method"] + ("/R%d" % spec["rich"] if spec["rich"] else "")
    rec = util.Rec(sig="%s|%d|%s|%d" % (label, d, spec["history"], spec["pseed"] % 5))
    feats = {"method": spec["method"], "richardson": spec["rich"], "family": info["family"], "direction": d, "history": spec["history"], "dtype": spec.get("dtype", "float64")}
    fault = {"at": None, "n": 0}

    retry = {"armed": False, "log": None, "system": None}

    def f(t, y, **kw):
        fault["n"] += 1
        if fault["at"] is not None and fault["n"] == fault["at"]:
            fault["at"] = None
            raise Fault("injected")
        if retry["armed"] and retry["log"] is not None and len(retry["system"]) >= 3:
            at = retry["log"].attempts
            if len(at) >= 2 and at[-1]["t"] == at[-2]["t"] and at[-2]["raised"] is None:
                retry["armed"] = False      # we are inside the RETRY of a rejected attempt of a later step: fail here
                raise Fault("injected in retry")
        return prob.rhs(t, y)

    def fpure(t, y):
        return prob.rhs(np.asarray(t, dtype=dt_), np.asarray(y, dtype=dt_))

    y0 = prob.ystar(t0).astype(dt_)
    L = abs(tf - t0)
    system = sysrun.make_system(f, y0, t0, tf, L / spec["nsteps"], cls, dense=True, rtol=spec["rtol"], atol=spec["rtol"] * 1e-2)
    hist = spec["history"]

    def ev_nt(t, y, **kw):
        return y[0] - prob.a[0]
    ev_nt.is_terminal = False

    def ev_term(t, y, **kw):
        return t - (t0 + 0.55 * (tf - t0))
    ev_term.is_terminal = True

    def step(label, **kw):
        seg = sysrun.call_integrate(system, max_steps=20000, **kw)
        _check_dense(rec, system, prob, spec, info, feats, fpure, label, rng)
        return seg

    if hist == "single":
        step("after_run")
    elif hist == "split":
        step("after_part1", t=t0 + 0.3 * (tf - t0))
        step("after_part2", t=t0 + 0.7 * (tf - t0))
        step("after_part3")
    elif hist == "query_between":
        step("after_part1", t=t0 + 0.5 * (tf - t0))
        if system.sol is not None and system.sol.t_eval is not None:
            system.sol(np.asarray(t0 + 0.25 * (tf - t0)))
            system.sol(np.asarray([t0 + 0.1 * (tf - t0), t0 + 0.4 * (tf - t0)]))
        step("after_part2")
    elif hist == "state_edit":
        step("after_part1", t=t0 + 0.4 * (tf - t0))
        if len(system) > 1:
            # an edit of ALL components and (second time) of the last component only (for a separable system with the default kick mask that is
            # a momentum: the first kick of a splitting step does not depend on it, so the recorded rows do not show a stale slope)
            system.y[-1][...] = system.y[-1] + np.asarray([0.3, -0.2], dtype=dt_)
            rec.edited_rows = {len(system) - 1}
            rec.bump("state_edits_between_calls")
        step("after_edit_part2", t=t0 + 0.7 * (tf - t0))
        if len(system) > 1:
            system.y[-1][-1] = system.y[-1][-1] + dt_.type(0.25)
            rec.edited_rows = set(rec.edited_rows) | {len(system) - 1}
            rec.bump("state_edits_between_calls")
        step("after_edit_part3")
    elif hist == "events_nonterminal":
        step("after_run_with_events", events=[ev_nt])
    elif hist == "terminal_continue":
        seg = step("after_terminal_stop", events=[ev_nt, ev_term])
        rec.bump("post_terminal_objects")
        step("after_continuation")
    elif hist == "fail_in_retry":
        # a callback inflates dt every few steps so that the next attempt is rejected; the fault fires inside the retry
        if info["adaptive"] and not spec["rich"]:
            retry["log"] = StepLog(system.integrator)
            retry["system"] = system
            retry["armed"] = True

            def inflate(s_):
                if len(s_) % 3 == 0:
                    s_.dt = 8.0 * float(s_.dt)
            seg = step("after_failure_in_retry", callback=inflate)
            if seg["raised"] and not retry["armed"]:
                rec.bump("post_failure_objects")
                rec.bump("failures_inside_a_retry")
            retry["armed"] = False
            step("after_resume")
        else:
            step("after_run")
    elif hist == "fail_resume":
        # several failures in one history, each at a random user-function call of its leg (later ones fall into steps that are not the
        # first of the run, often into the retry of a rejected step), each followed by a resume
        for leg, frac in enumerate((0.35, 0.7, 1.0)):
            tgt = None if frac == 1.0 else t0 + frac * (tf - t0)
            fault["at"] = fault["n"] + int(rng.integers(3, 45))
            seg = step("after_failure_%d" % leg, t=tgt)
            if seg["raised"]:
                rec.bump("post_failure_objects")
            fault["at"] = None
            step("after_resume_%d" % leg, t=tgt)
    npieces = 0 if system.sol is None or system.sol.t_eval is None else len(system.sol.y_interpolants)
    rec.nontrivial = npieces >= 5
    if d < 0 and npieces >= 10:
        rec.bump("backward_runs_10_pieces")
    if info["splitting"]:
        rec.bump("splitting_runs")
    if spec["rich"]:
        rec.bump("richardson_runs")
        if spec["rich"] >= 6:
            rec.bump("richardson_runs_6_or_more_levels")
    if spec.get("tau"):
        rec.bump("time_scaled_runs")
    rec.sample = {"spec": {k: spec[k] for k in ("method", "rich", "direction", "history", "t0", "tf", "nsteps", "rtol")}, "pieces": npieces, "rows": len(system)}
    return rec.out()
