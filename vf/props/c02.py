"""C02 - one step equals the Runge-Kutta update defined by the coefficients.

Executable reference model: stage arguments are recomputed in longdouble from the CLASS-level tableau and the
stage slopes the integrator exposes; the user function is evaluated there and compared.
"""
import numpy as np

from vf import util
from vf.instrument import StepLog
from vf.problems import Manufactured, dtype_of, rng_for

LEVEL = "exploration"
RULE = ("one case = (method, dtype, sign of h, state shape, program seed, call history); the real integrator is called "
        "on a random smooth time-dependent program (manufactured: sin/cos/tanh couplings); every stage slope k_i is compared "
        "with f(t+c_i h, y+h*sum a_ij k_j) recomputed in longdouble from the class tableau, dState with h*sum b_i k_i; "
        "non-trivial = >=1 accepted step; distinct by (method,dtype,sign,shape,seed,history)")
ASSUMPTIONS = ["explicit threshold 64*eps*(1+sum|a_ij|)*(1+max|k|)*(1+L|h|); implicit threshold 4*desired_tol + rounding, "
               "desired_tol recomputed from the inputs exactly as the library's step() does"]
RULE += " Strata added in the fourth seeding round: Mixed-scale states (trace components 1e-18..1e-24) with the increment identity judged component by component; stiff single calls under the library's own controller with a small solution and rtol >> atol."
FLOORS = {"quick": {"accepted_steps": 300, "stage_equations_checked": 1500, "newton_failure_then_retry": 1, "second_calls": 60, "insitu_steps": 300, "stiff_reduced_precision_steps": 15, "increment_components_checked_mixed_scale": 80, "stiff_small_solution_steps": 20},
          "thorough": {"accepted_steps": 3000, "stage_equations_checked": 15000, "newton_failure_then_retry": 5, "second_calls": 600, "insitu_steps": 3000, "stiff_reduced_precision_steps": 120, "increment_components_checked_mixed_scale": 320, "stiff_small_solution_steps": 120}}
K_EXPL = 64.0
K_IMPL = 4.0
K_SPLIT = 128.0
SHAPES = [(1,), (2,), (3,), (5,), (2, 2), (2, 3), (6,)]


def gen_cases(tier, seed):
    M = util.methods()
    cases = []
    rng = rng_for(201, seed)
    reps = 2 if tier == "quick" else 10
    for name, info in M.items():
        for r in range(reps):
            for dt in ["float64", "float32", "longdouble"]:
                if dt == "longdouble" and not info["explicit"] and info["order"] > 6 and (tier == "quick" or r > 2):
                    continue
                if dt != "float64" and tier == "quick" and r > 0:
                    continue
                shape = SHAPES[int(rng.integers(len(SHAPES)))]
                if info["splitting"] and (len(shape) > 1 or shape[0] < 2):
                    shape = (int(rng.choice([2, 4, 6])),)
                if not info["explicit"] and info["stages"] >= 10:
                    shape = (int(rng.choice([1, 2, 3])),)
                sgn = int(rng.choice([-1, 1]))
                hmag = float(10 ** rng.uniform(-4, 0))
                t0 = float(rng.uniform(-20, 20))
                cases.append(dict(method=name, dtype=dt, sign=sgn, h=sgn * hmag, t0=t0, shape=list(shape),
                                  pseed=int(rng.integers(1 << 30)), history=["end", "elsewhere", "end"][: (2 if tier == "quick" else 3)],
                                  cost=1 + (0 if info["explicit"] else info["stages"] * 2) * (4 if dt == "longdouble" else 1)))
    # mixed-scale states (trace species of order 1e-18 .. 1e-24 beside O(1) ones, as in chemical kinetics): the increment is h*sum(b_i k_i) of the
    # stage slopes the integrator reports, COMPONENT BY COMPONENT (a global rounding unit would hide the small components entirely)
    rngt = rng_for(203, seed)
    for name, info in M.items():
        if info["splitting"]:
            continue
        for r in range(1 if tier == "quick" else 4):
            sgn = int(rngt.choice([-1, 1]))
            cases.append(dict(method=name, dtype="float64", sign=sgn, h=sgn * float(10 ** rngt.uniform(-3, -0.5)), t0=float(rngt.uniform(-5, 5)),
                              shape=[3] if (info["explicit"] or info["stages"] < 10) else [2], trace=[1.0, float(10 ** rngt.uniform(-24, -17)), float(10 ** rngt.uniform(-22, -16))],
                              pseed=int(rngt.integers(1 << 30)), history=["end"], cost=1 + (0 if info["explicit"] else info["stages"] * 2)))
    # forced Newton failures: hard starting steps on a strongly nonlinear program
    impl = [n for n, i in M.items() if not i["explicit"]]
    for r in range(4 if tier == "quick" else 24):
        name = impl[int(rng.integers(len(impl)))]
        if M[name]["stages"] >= 10:
            name = "RadauIIA5"
        cases.append(dict(method=name, dtype="float64", sign=1, h=float(10 ** rng.uniform(0.8, 2.0)), t0=0.0, shape=[3],
                          pseed=int(rng.integers(1 << 30)), history=[], hard=True, cost=20))
    for r in range(56 if tier == "quick" else 400):
        # extended precision takes the built-in dogleg path: a stagnating iteration must not be accepted (LobattoIIIC2 on polynomial
        # programs is where a stagnated solve was first seen to be accepted: it gets most of the probes)
        name = "LobattoIIIC2" if r % 8 else [n for n in impl if M[n]["stages"] <= 3][int(rng.integers(len([n for n in impl if M[n]["stages"] <= 3])))]
        cases.append(dict(method=name, dtype="longdouble", sign=int(rng.choice([-1, 1])), h=float(rng.choice([-1, 1])) * float(rng.choice([0.75, 1.0, 1.5, 2.5])), t0=0.0, shape=[2],
                          pseed=int(rng.integers(1 << 30)), history=["end"], hard=False, poly=True, tol=float(rng.choice([1e-13, 1e-13, 1e-11])), cost=6))
    # reduced precision + stiffness: in a float32 run a stage solve is still to be accepted only when the stage equations hold to the
    # stated solver tolerance (h*|df/dy| up to 1e5 turns a slope rounded to float32 into a residual far above it)
    small = [n for n in impl if M[n]["stages"] <= 3]
    rng_keep, rng = rng, rng_for(204, seed)      # (own stream: the reduced-precision cases below keep the random numbers they always had)
    for r in range(80 if tier == "quick" else 500):
        # the library's own controller in place, a SMALL solution and rtol >> atol: a solve the step routine flags as unconverged stays unconverged
        # whatever a looser criterion elsewhere thinks of it
        name = impl[r % len(impl)]
        if M[name]["stages"] >= 10:
            name = "CrankNicolson"
        cases.append(dict(kind="stiff32", method=name, dtype="float64", lam=float(10 ** rng.uniform(2, 6)), h=float(rng.choice([-1, 1])) * float(rng.choice([0.05, 0.1, 0.5, 2.0])),
                          offset=float(rng.choice([0.0, 0.0, 0.5, 2.0])), tol=0.0, sc=float(rng.choice([1e-3, 1e-5])), rtol=float(rng.choice([1e-3, 1e-4, 1e-6])),
                          atol=float(rng.choice([1e-12, 1e-13, 1e-14])), t0=float(rng.uniform(-1, 1)), pseed=int(rng.integers(1 << 30)), cost=3))
    # ... and the same regime as a seed-independent core battery (every implicit scheme of <= 3 stages and the adaptive ones, both signs of h)
    for name in [n for n in impl if M[n]["stages"] <= 3] + ["LobattoIIIC4"]:
        for (lam_, sc_, off_, rt_, at_, h_) in ((1e6, 1e-3, 0.0, 1e-4, 1e-13, 0.5), (1e6, 1e-3, 2.0, 1e-4, 1e-13, -2.0), (1e4, 1e-3, 0.0, 1e-3, 1e-12, 2.0), (1e6, 1e-5, 0.0, 1e-3, 1e-12, 0.5),
                                                (1e2, 1e-3, 0.5, 1e-6, 1e-14, 0.1), (1e6, 1e-3, 2.0, 1e-6, 1e-14, 2.0)):
            cases.append(dict(kind="stiff32", method=name, dtype="float64", lam=lam_, h=h_, offset=off_, tol=0.0, sc=sc_, rtol=rt_, atol=at_, t0=0.3, pseed=7, cost=3))
    rng = rng_keep
    for r in range(90 if tier == "quick" else 600):
        name = small[r % len(small)]
        cases.append(dict(kind="stiff32", method=name, dtype="float32" if r % 5 else "float64", lam=float(10 ** rng.uniform(3, 5.5)), h=float(rng.choice([-1, 1])) * float(rng.choice([0.25, 0.1, 0.5])),
                          offset=float(rng.choice([0.0, 0.01])), tol=float(rng.choice([0.0, 1e-6])), t0=float(rng.uniform(-1, 1)), pseed=int(rng.integers(1 << 30)), cost=3))
    # in situ: the same oracle attached (through a callback) to every step of real OdeSystem runs, across rejected steps, FSAL reuse,
    # successive integrate() calls and a change of the constants between two calls
    sysm = [n for n, i in M.items() if not i["splitting"]]
    for r in range(24 if tier == "quick" else 240):
        name = sysm[int(rng.integers(len(sysm)))]
        if M[name]["stages"] >= 10 and not M[name]["explicit"]:
            name = "RadauIIA5"
        cases.append(dict(kind="system", method=name, dtype="float64", sign=int(rng.choice([-1, 1])), h=0.0, t0=float(rng.uniform(-3, 3)), shape=[3],
                          pseed=int(rng.integers(1 << 30)), history=[], big_dt=bool(rng.random() < 0.4), cost=6 if M[name]["explicit"] else 40))
    return cases


def _ref_model_rk(info, prob, t, y, dT, k, dtype):
    """max normalised stage defect and increment defect for a tableau method (longdouble reference)."""
    cls = info["cls"]
    A = np.asarray(cls.tableau_intermediate, dtype=np.longdouble)
    B = np.asarray(cls.tableau_final, dtype=np.longdouble)
    s = A.shape[0]
    kl = np.asarray(k, dtype=np.longdouble)
    yl = np.asarray(y, dtype=np.longdouble)
    tl = np.longdouble(t)
    hl = np.longdouble(dT)
    res = []
    for i in range(s):
        arg = yl + hl * np.sum(kl * A[i, 1:], axis=-1)
        fi = prob.rhs(tl + A[i, 0] * hl, arg)
        res.append(np.asarray(fi, dtype=np.longdouble) - kl[..., i])
    return res, hl * np.sum(kl * B[0, 1:], axis=-1)


def _ref_model_splitting(info, prob, t, y, h, mask):
    T = np.asarray(info["cls"].tableau_intermediate, dtype=np.longdouble)
    yl = np.asarray(y, dtype=np.longdouble).copy()
    tl = np.longdouble(t)
    hl = np.longdouble(h)
    kick = np.asarray(mask, dtype=bool)
    for st in range(T.shape[0]):
        f = np.asarray(prob.rhs(tl, yl), dtype=np.longdouble)
        c, d = T[st, 1], T[st, 2]
        upd = np.where(kick, d * hl * f, c * hl * f)
        tl = tl + hl * c
        yl = yl + upd
    return yl - np.asarray(y, dtype=np.longdouble), tl - np.longdouble(t)


def _run_system(spec):
    """stage equations of EVERY accepted step of an OdeSystem run, observed from a callback on the live integrator."""
    from vf import sysrun
    M = util.methods()
    info = M[spec["method"]]
    d = spec["sign"]
    dt = np.dtype("float64")
    eps = float(np.finfo(dt).eps)
    prob = Manufactured(3, spec["pseed"], direction=d)
    t0 = spec["t0"]
    L = 2.0
    tf = t0 + d * L
    rec = util.Rec(sig="system|%s|%d|%s|%d" % (spec["method"], d, spec["big_dt"], spec["pseed"] % 997))
    feats = {"method": spec["method"], "family": info["family"], "dtype": "float64", "sign": d, "kind": "system"}
    consts = {"gain": 1.0}

    def f(t, y, gain=1.0, **kw):
        return prob.rhs(t, y) * gain

    class P:     # reference program with the gain in force at the time of the step
        pass
    Lip = prob.lipschitz()
    wmax = float(max(np.max(prob.w), np.max(prob.v)))
    rtol, atol = 1e-6, 1e-8
    system = sysrun.make_system(f, prob.ystar(t0).astype(dt), t0, tf, (L / 16.0) if not spec["big_dt"] else 4 * L, info["cls"], rtol=rtol, atol=atol, constants=consts)
    state = {"bad": 0}

    def cb(s):
        intg = s.integrator
        gain = s.constants["gain"]
        k = np.asarray(intg.stage_values)
        tl_ = np.asarray(intg.initial_time, dtype=np.longdouble)
        y = np.asarray(intg.initial_state)
        dTl = np.asarray(intg.dTime, dtype=np.longdouble)
        if float(tl_ + dTl) != float(s.t[-1]) and abs(float(tl_ + dTl) - float(s.t[-1])) > 64 * eps * max(1.0, abs(float(s.t[-1]))):
            return    # terminal landing etc.: the integrator's last call is not the last recorded row
        prob_g = type("G", (), {"rhs": staticmethod(lambda t, yy: prob.rhs(t, yy) * np.longdouble(gain))})
        res, dref = _ref_model_rk(info, prob_g, tl_, y, dTl, k, dt)
        A = np.asarray(info["cls"].tableau_intermediate)
        kmax = float(np.max(np.abs(k)))
        ymax = float(np.max(np.abs(y)))
        dTf = float(dTl)
        rec.bump("accepted_steps")
        rec.bump("insitu_steps")
        rec.bump("stage_equations_checked", len(res))
        if info["explicit"]:
            for i, r in enumerate(res):
                unit = K_EXPL * eps * ((1 + wmax * (abs(float(tl_)) + abs(dTf))) * (1 + kmax) + abs(gain) * Lip * (ymax + abs(dTf) * float(np.sum(np.abs(A[i, 1:]))) * kmax))
                e = float(np.max(np.abs(r)))
                rec.worst("insitu_explicit_stage_defect_over_unit", e / unit)
                if e > unit and state["bad"] < 2:
                    state["bad"] += 1
                    rec.violate("stage_equation", "stage_slope_differs_from_f_at_stage_argument", dict(feats, stage=i), err=e, unit=unit, row=len(s), gain=gain)
                    break
        else:
            desired = 0.5 * abs(atol + float(np.max(np.abs(rtol * y))))
            nrm = float(np.sqrt(sum(float(np.sum(r.astype(np.longdouble) ** 2)) for r in res)))
            unit = K_IMPL * desired + K_EXPL * eps * np.sqrt(3 * len(res)) * ((1 + wmax * (abs(float(tl_)) + abs(dTf))) * (1 + kmax) + Lip * (ymax + abs(dTf) * 4 * kmax))
            rec.worst("insitu_implicit_residual_over_unit", nrm / unit)
            if nrm > unit and state["bad"] < 2:
                state["bad"] += 1
                rec.violate("implicit_stage_residual", "accepted_step_with_unsolved_stage_equations", feats, residual=nrm, unit=unit, row=len(s))
        unitd = K_EXPL * eps * (1 + kmax) * abs(dTf) * (1 + float(np.sum(np.abs(info["cls"].tableau_final[0, 1:]))))
        ed = float(np.max(np.abs(np.asarray(intg.dState, dtype=np.longdouble) - dref)))
        if ed > unitd and state["bad"] < 2:
            state["bad"] += 1
            rec.violate("increment", "dState_differs_from_h_sum_b_k", feats, err=ed, unit=unitd, row=len(s))
        # the recorded row is previous row + increment
        if len(s) >= 2 and not np.array_equal(np.asarray(s.y[-1]), np.asarray(s.y[-2]) + np.asarray(intg.dState)):
            if abs(float(tl_) - float(s.t[-2])) == 0.0:
                rec.violate("recorded_row", "recorded_state_is_not_previous_state_plus_increment", feats, row=len(s))
    seg = sysrun.call_integrate(system, t=t0 + 0.5 * (tf - t0), callback=cb, max_steps=20000)
    # a parameter of the right-hand side changes between two calls: nothing cached from the old program may be used
    system.constants["gain"] = 1.7
    seg2 = sysrun.call_integrate(system, callback=cb, max_steps=20000)
    rec.bump("second_calls")
    rec.nontrivial = rec.counters.get("insitu_steps", 0) >= 3
    rec.sample = {"spec": {k: spec[k] for k in ("kind", "method", "sign", "t0", "big_dt")}, "rows": len(system), "raised": [str(seg["raised"]), str(seg2["raised"])]}
    return rec.out()


def _run_stiff32(spec):
    import desolver as de
    from desolver.exception_types import FailedToMeetTolerances
    M = util.methods()
    info = M[spec["method"]]
    dt = dtype_of(spec["dtype"])
    lam = spec["lam"]
    rec = util.Rec(sig="stiff32|%s|%s|%d|%s|%s" % (spec["method"], spec["dtype"], int(np.log10(lam)), spec["offset"], spec["pseed"] % 97))
    feats = {"method": spec["method"], "family": info["family"], "dtype": spec["dtype"], "sign": 1 if spec["h"] > 0 else -1, "kind": "stiff32"}

    sc = float(spec.get("sc", 1.0))      # solution magnitude (u = sc*y): with rtol >> atol the tolerance in force is atol + rtol*|u| << atol + rtol

    def f(t, y, **kw):
        # the stiff part is autonomous: the rounding of a stage TIME to the run's precision then enters with |d f/d t| <= 1, not with lam
        if sc != 1.0:
            z = y / y.dtype.type(sc)
            return y.dtype.type(sc) * np.stack([-lam * (z[0] - 0.7) - z[0] ** 3 + z[1], -z[1] + np.sin(t)])
        return np.stack([-lam * (y[0] - 0.7) - y[0] ** 3 + y[1], -y[1] + np.sin(t)])

    def jac(t, y, **kw):
        z = y / sc
        return np.array([[-lam - 3 * z[0] ** 2, 1.0], [0.0, -1.0]])
    rhs = de.DiffRHS(f)
    rhs.hook_jacobian_call(jac)
    kw = dict(rtol=spec["tol"], atol=spec["tol"]) if spec["tol"] else {}
    if spec.get("rtol"):
        kw = dict(rtol=spec["rtol"], atol=spec["atol"])
        feats["tolerance_regime"] = "rtol>>atol, |y|~%g" % sc
    intg = info["cls"]((2,), dtype=dt, **kw)
    t0 = dt.type(spec["t0"])
    y0 = (sc * np.array([0.7 + spec["offset"], 0.5])).astype(dt)
    try:
        _, (dT, dY) = intg(rhs, t0, y0.copy(), {}, dt.type(spec["h"]))
    except (FailedToMeetTolerances, np.linalg.LinAlgError) as e_:
        # no step is handed back (a singular iteration matrix surfacing as LinAlgError is a refusal too): nothing to judge
        rec.bump("stiff_reduced_precision_refused" if isinstance(e_, FailedToMeetTolerances) else "stiff_refused_LinAlgError")
        return rec.out()
    rec.bump("accepted_steps")
    rec.bump("stiff_reduced_precision_steps" if spec["dtype"] == "float32" else "stiff_control_steps")
    if spec.get("rtol"):
        rec.bump("stiff_small_solution_steps")
    rec.nontrivial = True
    A = np.asarray(info["cls"].tableau_intermediate, dtype=np.longdouble)
    b = np.asarray(info["cls"].tableau_final, dtype=np.longdouble)[0, 1:]
    Kst = np.asarray(intg.stage_values, dtype=np.longdouble)
    c_run = np.asarray(intg.tableau_intermediate)[:, 0]          # abscissae in the precision of the integrator (stage times as it forms them)
    # ... and the stage coefficients as the integrator of this run holds them (float32 in a float32 run): eps32*|dT|*sum|a_ij k_j| of difference to the
    # class tableau is turned into lam times as much in the residual by the stiff part (seen once heavily shortened steps with large slopes were no
    # longer refused wholesale, fix 41c3afd); that the held coefficients are the method's to rounding is C01's subject
    A = np.asarray(intg.tableau_intermediate, dtype=np.longdouble)
    y0l, dTl = y0.astype(np.longdouble), np.longdouble(dT)
    resid = 0.0
    for i in range(A.shape[0]):
        ti = np.longdouble(t0 + c_run[i] * dT)
        ki = np.asarray(f(ti, y0l + dTl * (Kst @ A[i, 1:])), dtype=np.longdouble)
        resid = max(resid, float(np.sqrt(np.sum((Kst[:, i] - ki) ** 2))))
    atol, rtol = float(intg.atol), float(intg.rtol)
    stated = 0.5 * (atol + float(np.max(np.abs(rtol * y0.astype(np.float64))))) / max(abs(float(dT)), 1.0)
    kmax = float(np.max(np.abs(Kst)))
    # float64 rounding of the residual evaluation the solver itself performs (the stage solve runs in double precision whatever the run's dtype)
    unit = 10 * stated + 64 * 2.3e-16 * (1 + kmax) * (1 + lam * abs(float(dT))) + 8 * float(np.finfo(dt).eps) * (abs(float(t0)) + abs(float(dT)))
    rec.bump("stage_equations_checked", A.shape[0])
    rec.worst("stiff_residual_over_unit_" + spec["dtype"], resid / unit)
    rec.sample = {"spec": spec, "residual": resid, "stated_tolerance": stated, "accepted_dT": float(dT), "stage_dtype": str(np.asarray(intg.stage_values).dtype)}
    if not np.isfinite(resid) or resid > unit:
        rec.violate("implicit_stage_residual", "accepted_step_with_unsolved_stage_equations", feats, residual=resid, unit=unit, stated_tolerance=stated, lam=lam, dT=float(dT))
    incr = float(np.max(np.abs(np.asarray(dY, dtype=np.longdouble) - dTl * (Kst @ b))))
    uniti = 10 * stated * abs(float(dT)) + 8 * float(np.finfo(dt).eps) * abs(float(dT)) * kmax * float(np.sum(np.abs(b)))
    if incr > uniti:
        rec.violate("increment", "dState_differs_from_h_sum_b_k", feats, err=incr, unit=uniti)
    return rec.out()


def run_case(spec):
    if spec.get("kind") == "system":
        return _run_system(spec)
    if spec.get("kind") == "stiff32":
        return _run_stiff32(spec)
    import desolver as de
    M = util.methods()
    info = M[spec["method"]]
    dt = dtype_of(spec["dtype"])
    eps = float(np.finfo(dt).eps)
    shape = tuple(spec["shape"])
    n = int(np.prod(shape))
    hard = spec.get("hard", False)
    prob = Manufactured(n, spec["pseed"], direction=spec["sign"], shape=shape,
                        nonlin=(3.0 if hard else 0.3), damping=((5.0, 40.0) if hard else (0.3, 2.0)))
    if spec.get("poly"):
        from vf.problems import GradedPoly
        gp = GradedPoly(2, 4000 + spec["pseed"] % 200, nper=1)

        class _GP:      # adapter with the attributes the reference model needs
            w = np.array([1.0]); v = np.array([1.0])
            rhs = staticmethod(lambda t, y, **kw: gp.rhs(t, y))
            ystar = staticmethod(lambda t, dtype=np.longdouble: np.array([float(v_) for v_ in gp.y0], dtype=dtype))
            lipschitz = staticmethod(lambda: 8.0)
        prob = _GP
        shape = (gp.dim,)
        n = gp.dim
    if spec.get("trace"):
        base_ = prob
        Sv = np.asarray(spec["trace"][:n], dtype=np.longdouble)

        class _Mixed:      # u = S*y component-wise: the same dynamics with components of very different magnitude
            w, v = base_.w, base_.v
            lipschitz = staticmethod(lambda: base_.lipschitz())

            @staticmethod
            def rhs(t, u, **kw):
                u = np.asarray(u)
                S_ = Sv.astype(u.dtype)
                return S_ * base_.rhs(t, u / S_)

            @staticmethod
            def ystar(t, dtype=np.longdouble):
                return (Sv * base_.ystar(t, dtype=np.longdouble)).astype(dtype)
        prob = _Mixed
    rec = util.Rec(sig="%s|%s|%d|%s|%d|%s|%s" % (spec["method"], spec["dtype"], spec["sign"], shape, spec["pseed"], "".join(h[0] for h in spec["history"]), bool(spec.get("trace"))))
    feats = {"method": spec["method"], "family": info["family"], "dtype": spec["dtype"], "sign": spec["sign"]}
    intg = info["cls"](shape, dtype=dt, **(dict(rtol=spec["tol"], atol=spec["tol"]) if spec.get("tol") else {}))
    util.passthrough_adaptation(intg)
    log = StepLog(intg)
    rhs = de.DiffRHS(prob.rhs)
    rng = rng_for(202, spec["pseed"])
    t = np.asarray(spec["t0"], dtype=dt)
    y = (prob.ystar(spec["t0"]) + 0.1 * rng.standard_normal(shape)).astype(dt)
    if spec.get("trace"):
        y = (prob.ystar(spec["t0"]) * (1 + 0.1 * rng.standard_normal(shape))).astype(dt)
    h = np.asarray(spec["h"], dtype=dt)
    L = prob.lipschitz()
    plan = ["first"] + list(spec["history"])
    worst_stage = 0.0
    for pos, what in enumerate(plan):
        if what == "elsewhere":   # NOT the end of the previous step: nothing cached may be reused
            t = np.asarray(float(t) + float(rng.uniform(-3, 3)), dtype=dt)
            y = (prob.ystar(float(t)) + 0.1 * rng.standard_normal(shape)).astype(dt)
            if spec.get("trace"):
                y = (prob.ystar(float(t)) * (1 + 0.1 * rng.standard_normal(shape))).astype(dt)
        n_att0 = len(log.attempts)
        y_in = y.copy()
        try:
            _, (dT, dY) = intg(rhs, t, y, {}, h)
        except Exception as e:
            rec.bump("raised_" + type(e).__name__)
            # no acceptance: the attempts must all have failed to converge (implicit) - nothing to compare
            atts = log.attempts[n_att0:]
            if info["explicit"]:
                rec.violate("explicit_step_raised", type(e).__name__, feats, error=repr(e)[:300])
            break
        if not np.array_equal(y_in, y):
            rec.violate("caller_state_modified", "initial_state_array_changed", feats)
        atts = log.attempts[n_att0:]
        rec.bump("accepted_steps")
        if pos > 0:
            rec.bump("second_calls")
        rec.nontrivial = True
        dTf = float(dT)
        dTl = np.asarray(dT, dtype=np.longdouble)
        tl_ = np.asarray(t, dtype=np.longdouble)
        # ---- retry discipline (implicit): a failed Newton attempt is never the accepted one
        if not info["explicit"] and atts:
            if atts[-1].get("newton_ok") is False:
                rec.violate("unconverged_step_accepted", "last_attempt_newton_failed", feats, attempts=atts[-5:])
            for a, b in zip(atts[:-1], atts[1:]):
                if a.get("newton_ok") is False:
                    rec.bump("newton_failure_then_retry")
                    # (that the retry uses a strictly smaller |h| is C05's clause, not C02's)
        if info["splitting"]:
            dref, dtref = _ref_model_splitting(info, prob, tl_, y, np.asarray(h, dtype=np.longdouble), intg.staggered_mask)
            wmax = float(max(np.max(prob.w), np.max(prob.v)))
            unit = K_SPLIT * eps * info["stages"] * abs(float(h)) * (1 + wmax * (abs(float(t)) + abs(float(h)))) * (1 + float(np.max(np.abs(y)))) * (1 + L) * (1 + L * abs(float(h)))
            err = float(np.max(np.abs(np.asarray(dY, dtype=np.longdouble) - dref)))
            rec.bump("stage_equations_checked", info["stages"])
            rec.worst("splitting_defect_over_unit", err / unit)
            if err > unit:
                rec.violate("splitting_composition", "increment_differs_from_drift_kick_composition", feats, err=err, unit=unit)
            if abs(float(dTl - dtref)) > 64 * max(eps, 2.3e-16) * info["stages"] * max(1.0, abs(float(h))):   # class tableau is float64: sum of drifts = 1 to float64 rounding
                rec.violate("splitting_time", "dTime_differs_from_sum_of_drifts", feats, dT=dTf, ref=float(dtref))
        else:
            k = np.asarray(intg.stage_values)
            if k.shape != shape + (info["stages"],):
                rec.violate("stage_storage_shape", "stage_values_shape", feats, got=list(k.shape))
                break
            res, dref = _ref_model_rk(info, prob, tl_, y, dTl, k, dt)
            A = np.asarray(info["cls"].tableau_intermediate)
            kmax = float(np.max(np.abs(k))) if k.size else 0.0
            ymax = float(np.max(np.abs(y)))
            wmax = float(max(np.max(prob.w), np.max(prob.v)))
            rec.bump("stage_equations_checked", len(res))
            if info["explicit"]:
                for i, r in enumerate(res):
                    unit = K_EXPL * eps * ((1 + wmax * (abs(float(t)) + abs(dTf))) * (1 + kmax)
                                           + L * (ymax + abs(dTf) * float(np.sum(np.abs(A[i, 1:]))) * kmax))
                    e = float(np.max(np.abs(r)))
                    worst_stage = max(worst_stage, e / unit)
                    if e > unit:
                        rec.violate("stage_equation", "stage_slope_differs_from_f_at_stage_argument", dict(feats, stage=i), err=e, unit=unit)
                        break
                rec.worst("explicit_stage_defect_over_unit", worst_stage)
            else:
                rtol, atol = float(intg.rtol), float(intg.atol)
                desired = 0.5 * abs(atol + float(np.max(np.abs(rtol * y.astype(np.float64)))))
                nrm = float(np.sqrt(sum(float(np.sum(r.astype(np.longdouble) ** 2)) for r in res)))
                unit = K_IMPL * desired + K_EXPL * eps * np.sqrt(n * len(res)) * (
                    (1 + wmax * (abs(float(t)) + abs(dTf))) * (1 + kmax) + L * (ymax + abs(dTf) * float(np.max(np.sum(np.abs(A[:, 1:]), axis=1))) * kmax))
                rec.worst("implicit_residual_over_unit", nrm / unit)
                if nrm > unit:
                    rec.violate("implicit_stage_residual", "accepted_step_with_unsolved_stage_equations", feats, residual=nrm, unit=unit, desired_tol=desired)
            unitd = K_EXPL * eps * (1 + kmax) * abs(dTf) * (1 + float(np.sum(np.abs(info["cls"].tableau_final[0, 1:]))))
            ed = float(np.max(np.abs(np.asarray(dY, dtype=np.longdouble) - dref)))
            rec.worst("increment_defect_over_unit", ed / unitd if unitd > 0 else 0.0)
            if ed > unitd:
                rec.violate("increment", "dState_differs_from_h_sum_b_k", feats, err=ed, unit=unitd)
            # the same identity component by component, in the unit of each component's own terms
            bl = np.abs(np.asarray(info["cls"].tableau_final[0, 1:], dtype=np.longdouble))
            unit_c = K_EXPL * max(eps, 2.3e-16) * abs(dTf) * np.tensordot(np.abs(k.astype(np.longdouble)), bl, axes=([-1], [0]))
            err_c = np.abs(np.asarray(dY, dtype=np.longdouble) - dref)
            rec.bump("increment_components_checked", int(err_c.size))
            if spec.get("trace"):
                rec.bump("increment_components_checked_mixed_scale", int(err_c.size))
            if bool(np.any(err_c > unit_c)):
                j_ = int(np.argmax(err_c - unit_c))
                rec.violate("increment", "a_component_of_dState_differs_from_h_sum_b_k_of_that_component", dict(feats, mixed_scale=bool(spec.get("trace"))),
                            component=j_, err=float(err_c.reshape(-1)[j_]), unit=float(unit_c.reshape(-1)[j_]), dState=float(np.asarray(dY).reshape(-1)[j_]))
        # next call continues from the end of this step
        t = np.asarray(t + dT, dtype=dt)
        y = (y + dY).astype(dt)
    rec.sample = {"spec": {k: spec[k] for k in ("method", "dtype", "h", "t0", "shape", "history")},
                  "attempts": log.attempts[:6], "worst_stage_defect_over_unit": worst_stage}
    return rec.out()
