"""C07 - reported events are genuine, correctly located, ordered and unique."""
import numpy as np

from vf import util, sysrun
from vf.events import Ev, random_event_spec, DetectionTrace, true_roots
from vf.problems import Manufactured, rng_for

LEVEL = "exploration"
RULE = ("one case = (method, direction, dense flag, event mix incl. simultaneous events and time events exactly on grid points, seed); every "
        "reported (t_e,y_e,g): y_e equals the step interpolant at t_e as evaluated at detection time, |g(t_e,y_e)| small relative to the "
        "function's own steepness and scale, t_e inside the step being processed (callback-sequenced), injectively matched to a true root "
        "of g along the exact trajectory within the node/interpolation error, direction compatible, listing ordered along the integration "
        "direction; non-trivial = >=1 reported event; distinct by (method,direction,dense,event mix,seed)")
ASSUMPTIONS = ["true roots with |dg/dt| below 5% of the function's scale (tangential) and pairs of true roots closer than the location tolerance are excluded",
               "root location tolerance in t: K*(dy*|s||grad h|/|dg/dt| + max(4eps(1+|t|), ulp(t))) with dy = node error + h^4 max|y''''|/384, K=10"]
RULE += " Strata added in the fourth seeding round: State-dependent events whose root is bit-exactly a recorded row, with one-sided requests and sign-flipped twins."
FLOORS = {"quick": {"events_checked": 150, "events_backward": 50, "events_nodense": 50, "steps_with_two_events": 3, "boundary_root_events": 6, "events_on_small_steps": 12, "events_on_tiny_steps": 4, "boundary_root_events_sharing_a_step": 30, "multileg_legs": 40, "multileg_events": 40, "events_on_a_call_boundary": 15, "events_of_extreme_scale": 20, "events_with_the_root_on_a_recorded_row_state_dependent": 25},
          "thorough": {"events_checked": 1500, "events_backward": 500, "events_nodense": 500, "steps_with_two_events": 30, "boundary_root_events": 60, "events_on_small_steps": 150, "events_on_tiny_steps": 20, "boundary_root_events_sharing_a_step": 150, "multileg_legs": 200, "multileg_events": 200, "events_on_a_call_boundary": 100, "events_of_extreme_scale": 100, "events_with_the_root_on_a_recorded_row_state_dependent": 100}}
QUICK_METHODS = ["RK45CKSolver", "DOPRI45", "RK4Solver", "EulerSolver", "RK8713MSolver", "ABAs5o6HSolver", "SymplecticEulerSolver",
                 "BackwardEuler", "RadauIIA5", "GaussLegendre4", "MidpointSolver", "RK108Solver"]
CASE_TIMEOUT = 900
K = 10.0


def gen_cases(tier, seed):
    M = util.methods()
    rng = rng_for(701, seed)
    names = QUICK_METHODS if tier == "quick" else list(M)
    cases = []
    reps = 1 if tier == "quick" else 3
    for name in names:
        info = M[name]
        for d in (1, -1):
            for dense in (True, False):
                for r in range(reps):
                    L = float(rng.uniform(3.0, 6.0))
                    t0 = float(rng.uniform(-4, 4))
                    nev = int(rng.integers(1, 7))
                    rdt = rng.random()
                    dtn = "float64" if rdt < 0.7 else ("float32" if rdt < 0.85 or not info["explicit"] else "longdouble")
                    cases.append(dict(kind="random", method=name, direction=d, dense=dense, t0=t0, tf=t0 + d * L, dtype=dtn,
                                      nsteps=float(rng.uniform(25, 60)) * (12 if info["order"] <= 2 and not info["adaptive"] else 1),
                                      nev=nev, pseed=int(rng.integers(1 << 30)), cost=(2 if info["explicit"] else 14) * (1 + nev / 3.0)))
    # event functions of extreme magnitude (down to 1e-30, up to 1e12): every absolute threshold in the detection pipeline is meaningless there
    for name in (["RK45CKSolver", "RK4Solver", "RK8713MSolver", "RadauIIA5"] if tier == "quick" else names):
        for d in (1, -1):
            for sd in ((-30, -12), (6, 12)):
                L = float(rng.uniform(3.0, 6.0))
                t0 = float(rng.uniform(-4, 4))
                cases.append(dict(kind="random", method=name, direction=d, dense=bool(rng.random() < 0.5), t0=t0, tf=t0 + d * L, nsteps=float(rng.uniform(25, 60)),
                                  nev=3, scale_decades=list(sd), pseed=int(rng.integers(1 << 30)), cost=(4 if M[name]["explicit"] else 28)))
    # derivative-dependent events on SMALL steps: the slope of the step interpolant carries rounding noise ~eps|y|/h, which is what the
    # direction classification has to cope with; pairs of functions on one surface with opposite signs, one-sided directions
    # (fixed-step methods keep the requested step; HeunEuler at rtol 1e-6 settles near 7e-4 by itself)
    for name in (["RK4Solver", "HeunEulerSolver", "RK5Solver"] if tier == "quick" else ["RK4Solver", "HeunEulerSolver", "RK5Solver", "MidpointSolver", "HeunsSolver"]):
        for d in (1, -1):
            for h in ((2e-3, 7e-4) if tier == "quick" else (3e-3, 1.5e-3, 7e-4, 4e-4)):
                for r in range(1 if tier == "quick" else 3):
                    L = float(rng.uniform(0.8, 1.6))
                    t0 = float(rng.uniform(-2, 2))
                    cases.append(dict(kind="smallstep", method=name, direction=d, dense=bool(rng.random() < 0.5), t0=t0, tf=t0 + d * L, nsteps=L / h, fixed_h=h,
                                      nev=2, pseed=int(rng.integers(1 << 30)), cost=4 * L / h / 500.0))
    # ... and on steps so small (5e-5) that samples sqrt(eps)*dt away from the root are themselves below that noise
    for name in ["RK4Solver", "RK5Solver"]:
        for d in (1, -1):
            for r in range(2 if tier == "quick" else 5):
                L = float(rng.uniform(0.3, 0.45))
                t0 = float(rng.uniform(-2, 2))
                cases.append(dict(kind="smallstep", method=name, direction=d, dense=bool(rng.random() < 0.5), t0=t0, tf=t0 + d * L, nsteps=L / 5e-5, fixed_h=5e-5,
                                  nev=2, pseed=int(rng.integers(1 << 30)), cost=20))
    for name in (["RK4Solver", "EulerSolver", "ABAs5o6HSolver"] if tier == "quick" else [n for n in M if M[n]["explicit"] and not M[n]["adaptive"]]):
        for d in (1, -1):
            for dense in (True, False):
                cases.append(dict(kind="boundary", method=name, direction=d, dense=dense, t0=0.0 if d > 0 else 2.0, tf=2.0 if d > 0 else 0.0,
                                  nsteps=32.0, nev=3, pseed=int(rng.integers(1 << 30)), cost=3))
                cases.append(dict(kind="boundary", shared=True, method=name, direction=d, dense=dense, t0=0.0 if d > 0 else 2.0, tf=2.0 if d > 0 else 0.0,
                                  nsteps=32.0, nev=6, pseed=int(rng.integers(1 << 30)), cost=4))
    # STATE-dependent events whose level is bit-exactly the value at a recorded row of an event-free reference run (g == 0.0 on a step boundary):
    # one-sided requests of both senses and sign-flipped twins - the crossing passes the direction filter only in the sense it really crosses
    rngb = rng_for(703, seed)
    for name in (["RK4Solver", "RK45CKSolver", "DOPRI45", "ABAs5o6HSolver", "RK8713MSolver", "GaussLegendre4"] if tier == "quick" else [n for n in names if M[n]["order"] >= 3]):
        for d in (1, -1):
            for r in range(2 if tier == "quick" else 4):
                L = float(rngb.uniform(2.0, 4.0))
                t0 = float(rngb.uniform(-3, 3))
                cases.append(dict(kind="row_root", method=name, direction=d, dense=bool(rngb.random() < 0.5), t0=t0, tf=t0 + d * L, nsteps=float(rngb.uniform(20, 40)),
                                  nev=4, pseed=int(rngb.integers(1 << 30)), cost=(3 if M[name]["explicit"] else 16)))
    # the span is covered by 2-3 calls that monitor the SAME event function objects; between the calls their `direction` attribute is changed
    # (and the list is passed again, as the same or as a new list object): every call must honour the attributes in force when it is made
    for name in (["RK4Solver", "RK45CKSolver", "RK8713MSolver", "ABAs5o6HSolver", "RadauIIA5"] if tier == "quick" else [n for n in names if M[n]["order"] >= 3]):
        for d in (1, -1):
            for r in range(2 if tier == "quick" else 4):
                L = float(rng.uniform(5.0, 8.0))
                t0 = float(rng.uniform(-4, 4))
                cases.append(dict(kind="multileg", method=name, direction=d, dense=bool(rng.random() < 0.5), t0=t0, tf=t0 + d * L, nsteps=float(rng.uniform(60, 110)), nev=3,
                                  nlegs=int(rng.integers(2, 4)), same_list=bool(rng.random() < 0.5), pseed=int(rng.integers(1 << 30)), cost=(4 if M[name]["explicit"] else 30)))
    return cases


def _multileg(spec):
    M = util.methods()
    info = M[spec["method"]]
    d = spec["direction"]
    t0, tf = spec["t0"], spec["tf"]
    dim = 2
    prob = Manufactured(dim, spec["pseed"], direction=d, freq=(1.0, 3.0))
    rng = rng_for(703, spec["pseed"])
    eps = 2.3e-16
    L = abs(tf - t0)
    h = L / spec["nsteps"]
    evspecs = [random_event_spec(rng, prob, t0, tf, dim, terminal=False, kinds=["component", "linear", "time"], scale_decades=(-3, 3)) for _ in range(spec["nev"])]
    events = [Ev(s_, dim) for s_ in evspecs]
    rec = util.Rec(sig="multileg|%s|%d|%s|%d|%s|%d" % (spec["method"], d, spec["dense"], spec["nlegs"], spec["same_list"], spec["pseed"] % 11))
    feats = {"method": spec["method"], "family": info["family"], "direction": d, "dense": bool(spec["dense"]), "case_kind": "multileg", "same_list_object": bool(spec["same_list"])}
    all_roots = [true_roots(ev, prob, t0, tf)[0] for ev in events]
    flat = sorted(r[0] for rs in all_roots for r in rs)
    # leg boundaries: away from every true root by more than 4 steps
    cuts = []
    for k in range(1, spec["nlegs"]):
        for _ in range(40):
            c = t0 + (k + float(rng.uniform(-0.25, 0.25))) / spec["nlegs"] * (tf - t0)
            if all(abs(c - r) > 4 * h for r in flat):
                cuts.append(c)
                break
    targets = cuts + [tf]
    if cuts:
        # one more function whose root sits EXACTLY on the hand-over time of two calls: located as the end of the last step of the first call
        # and as the start of the first step of the second - it is one crossing
        es_b = {"kind": "time", "scale": float(10 ** rng.uniform(-2, 2)) * float(rng.choice([-1, 1])), "c": float(cuts[0]), "direction": 0, "terminal": False}
        evspecs.append(es_b)
        events.append(Ev(es_b, dim))
        all_roots.append(true_roots(events[-1], prob, t0, tf)[0])
    used_all = [set() for _ in events]
    boundary_ev = events[-1] if cuts else None
    system = sysrun.make_system(lambda t, y, **kw: prob.rhs(t, y), prob.ystar(t0).astype(np.float64), t0, tf, h, info["cls"], dense=spec["dense"], rtol=1e-8, atol=1e-10)
    evlist = list(events)
    ta = t0
    for li, tb in enumerate(targets):
        if li > 0:
            for ev in events:      # attributes are changed on the same function objects between the calls
                if ev is not boundary_ev:
                    ev.direction = int(rng.choice([-1, 0, 1]))
            if not spec["same_list"]:
                evlist = list(events)
        n_ev0 = len(system.events)
        seg = sysrun.call_integrate(system, t=tb, events=evlist, max_steps=20000)
        fl = dict(feats, leg=li)
        if seg["raised"]:
            rec.violate("event_run_raised", type(getattr(seg["exc"], "__cause__", None) or seg["exc"]).__name__, fl, err=repr(getattr(seg["exc"], "__cause__", None) or seg["exc"])[:300])
            return rec.out()
        new = list(system.events)[n_ev0:]
        rec.bump("multileg_legs")
        t = np.asarray(system.t)
        y = np.asarray(system.y)
        node = max(float(np.max(np.abs(y[k].astype(np.longdouble) - prob.ystar(float(t[k]))))) for k in range(len(t)))
        hmax = float(np.max(np.abs(np.diff(t))))
        dy = node + hmax ** 4 * prob.d4ystar_max() / 384.0 + 64 * eps * (1 + float(np.max(np.abs(y))))
        lo, hi = sorted([ta, tb])
        for j, ev in enumerate(events):
            mine = sorted(float(e.t) for e in new if e.event is ev)
            grad_h = abs(ev.s) * (float(np.sum(np.abs(ev.w))) if ev.kind == "linear" else 1.0)
            want = []
            for (tr, gd) in all_roots[j]:
                if not (lo < tr < hi):
                    continue
                going_up = (gd * d) > 0
                if ev.direction != 0 and (ev.direction > 0) != going_up:
                    continue
                want.append((tr, gd))
            used = used_all[j]      # (across the calls: a crossing reported in an earlier call must not be reported again)
            for te in mine:
                rec.bump("events_checked")
                rec.bump("multileg_events")
                if ev is boundary_ev:
                    rec.bump("events_on_a_call_boundary")
                if d < 0:
                    rec.bump("events_backward")
                if not spec["dense"]:
                    rec.bump("events_nodense")
                if not (lo - 1e-12 <= te <= hi + 1e-12):
                    rec.violate("event_outside_step", "event_time_outside_the_call_in_which_it_was_found", fl, t_e=te, call=[ta, tb])
                    continue
                cands = [(abs(tr - te), i, tr, gd) for i, (tr, gd) in enumerate(all_roots[j])]
                if not cands:
                    rec.violate("event_no_true_root", "reported_event_but_g_has_no_root_along_exact_trajectory", dict(fl, ev_kind=ev.kind), t_e=te, event=ev.spec)
                    continue
                dist, i, tr, gd = min(cands)
                tolx = max(4 * eps * (1 + abs(te)), 4 * float(np.spacing(abs(te))))
                loc_tol = K * ((0.0 if ev.kind == "time" else dy) * grad_h / max(abs(gd), 1e-300) + tolx)
                gaps_ = [abs(a_[0] - b_[0]) for a_, b_ in zip(all_roots[j][:-1], all_roots[j][1:])]
                if loc_tol > 0.2 * min(gaps_ + [0.1 * L]):
                    rec.bump("skipped_run_too_inaccurate_for_root_matching")      # the exact trajectory cannot identify individual crossings of this run
                    continue
                if dist > loc_tol:
                    rec.violate("event_location", "event_time_far_from_true_root", dict(fl, ev_kind=ev.kind), t_e=te, true_root=tr, tol=loc_tol, event=ev.spec)
                    continue
                if ev.direction != 0 and (ev.direction > 0) != ((gd * d) > 0):
                    rec.violate("event_direction", "reported_crossing_direction_incompatible_with_requested_direction", dict(fl, ev_kind=ev.kind), t_e=te, dgdt=gd,
                                requested=ev.direction)
                if i in used:
                    rec.violate("event_duplicate", "one_crossing_reported_twice", dict(fl, ev_kind=ev.kind, case="multileg"), t_e=te, true_root=tr)
                used.add(i)
        ta = tb
    rec.nontrivial = rec.counters.get("multileg_events", 0) > 0
    rec.sample = {"spec": {k: spec[k] for k in ("kind", "method", "direction", "dense", "t0", "tf", "nlegs", "same_list")}, "events": evspecs[:2], "reported": len(system.events)}
    return rec.out()


def run_case(spec):
    if spec["kind"] == "multileg":
        return _multileg(spec)
    M = util.methods()
    info = M[spec["method"]]
    d = spec["direction"]
    t0, tf = spec["t0"], spec["tf"]
    dim = 2
    prob = Manufactured(dim, spec["pseed"], direction=d, freq=(1.0, 3.0))
    rng = rng_for(702, spec["pseed"])
    from vf.problems import dtype_of
    dt_ = dtype_of(spec.get("dtype", "float64"))
    eps = float(np.finfo(dt_).eps)
    evspecs = []
    if spec["kind"] == "boundary":
        for c in (0.5, 1.0, 1.5):
            # (one-sided requests too: a root exactly on a step boundary must pass the direction filter only in the sense it really crosses)
            evspecs.append({"kind": "time", "scale": float(10 ** rng.uniform(-3, 3)) * float(rng.choice([-1, 1])), "c": c, "direction": int(rng.choice([-1, 0, 1])), "terminal": False})
        # ... and twin functions on the same boundary roots with the OPPOSITE sign of scale and a one-sided request: exactly one of each pair may report
        for c in (0.5, 1.5):
            sc_ = float(10 ** rng.uniform(-3, 3))
            dr_ = int(rng.choice([-1, 1]))
            evspecs.append({"kind": "time", "scale": sc_, "c": c, "direction": dr_, "terminal": False})
            evspecs.append({"kind": "time", "scale": -sc_, "c": c, "direction": dr_, "terminal": False})
        if spec.get("shared"):
            # two events share a step and one root is on its boundary: companions cross strictly inside the step BEFORE (0.5, 1.5) or AFTER (1.0)
            # the boundary root, along the direction of integration (dt = 1/16)
            hstep = 2.0 / spec["nsteps"]
            for c, side in ((0.5, -1), (1.0, +1), (1.5, -1)):
                evspecs.append({"kind": "time", "scale": float(10 ** rng.uniform(-3, 3)) * float(rng.choice([-1, 1])), "c": c + side * d * hstep * float(rng.uniform(0.2, 0.8)),
                                "direction": 0, "terminal": False})
    elif spec["kind"] == "row_root":
        dtq = dtype_of(spec.get("dtype", "float64"))
        ref_ = sysrun.make_system(lambda t, y, **kw: prob.rhs(t, y), prob.ystar(t0).astype(dtq), t0, tf, dtq.type(abs(tf - t0) / spec["nsteps"]), info["cls"], rtol=1e-6, atol=1e-8)
        sysrun.call_integrate(ref_, max_steps=20000)
        yr = np.asarray(ref_.y)
        rows = [int(k) for k in rng.choice(np.arange(2, max(3, len(yr) - 2)), size=min(2, max(1, len(yr) - 4)), replace=False)] if len(yr) > 5 else []
        for k in rows:
            i_ = int(rng.integers(dim))
            sc_ = float(10 ** rng.uniform(-3, 3))
            dr_ = int(rng.choice([-1, 1]))
            for s_ in (sc_, -sc_):
                evspecs.append({"kind": "component", "i": i_, "scale": s_, "c": float(yr[k, i_]), "direction": dr_, "terminal": False})
        if not evspecs:
            rec0 = util.Rec(sig="rowroot-none")
            rec0.skipped = "reference run too short"
            return rec0.out()
    elif spec["kind"] == "smallstep":
        e1 = random_event_spec(rng, prob, t0, tf, dim, terminal=False, kinds=["dstate"])
        e1["direction"] = int(rng.choice([-1, 1]))
        e2 = dict(e1)
        e2["scale"] = -3.7 * e1["scale"]
        evspecs = [e1, e2]
    else:
        for _ in range(spec["nev"]):
            evspecs.append(random_event_spec(rng, prob, t0, tf, dim, terminal=False, kinds=["component", "linear", "time", "norm2", "dstate"],
                                             scale_decades=tuple(spec.get("scale_decades", (-6, 6)))))
        if spec["nev"] >= 2 and rng.random() < 0.6:
            # two different functions crossing at (nearly) the same time: both share a step
            e2 = dict(evspecs[0])
            e2["scale"] = -3.7 * e2["scale"]
            evspecs[1] = e2
    events = [Ev(s, dim) for s in evspecs]
    rec = util.Rec(sig="%s|%d|%s|%s|%d" % (spec["method"], d, spec["dense"], "".join(sorted(e.kind[0] for e in events)), spec["pseed"] % 11))
    feats = {"method": spec["method"], "family": info["family"], "direction": d, "dense": bool(spec["dense"]), "case_kind": spec["kind"]}

    def f(t, y, **kw):
        return prob.rhs(t, y)
    y0 = prob.ystar(t0).astype(dt_)
    L = abs(tf - t0)
    tolkw = dict(rtol=1e-6, atol=1e-8) if spec.get("dtype", "float64") != "float32" else dict(rtol=1e-3, atol=1e-4)
    system = sysrun.make_system(f, y0, t0, tf, dt_.type(L / spec["nsteps"]), info["cls"], dense=spec["dense"], **tolkw)
    trace = DetectionTrace()
    marks = []   # (len(events), len(system)) after every recorded step

    def cb(s):
        marks.append((len(s.events), len(s)))
    try:
        seg = sysrun.call_integrate(system, events=events, callback=cb, max_steps=20000)
    finally:
        trace.close()
    if seg["raised"]:
        cause = getattr(seg["exc"], "__cause__", None)
        rec.violate("event_run_raised", type(cause or seg["exc"]).__name__, feats, err=repr(cause or seg["exc"])[:300])
        return rec.out()
    t = np.asarray(system.t)
    y = np.asarray(system.y)
    evs = list(system.events)
    rec.nontrivial = len(evs) > 0
    if spec.get("dtype", "float64") != "float64":
        rec.bump("events_in_" + spec["dtype"], len(evs))
    if spec.get("scale_decades"):
        rec.bump("events_of_extreme_scale", len(evs))
    idx_of = {id(e): j for j, e in enumerate(events)}
    # ---- node / interpolation error of the run (what the located roots can inherit)
    node = max(float(np.max(np.abs(y[k].astype(np.longdouble) - prob.ystar(float(t[k]))))) for k in range(len(t)))
    hmax = float(np.max(np.abs(np.diff(t)))) if len(t) > 1 else 0.0
    dy = node + hmax ** 4 * prob.d4ystar_max() / 384.0 + 64 * eps * (1 + float(np.max(np.abs(y))))
    # slope interpolation error for derivative-dependent events: O(h^3)
    ddy = node * (prob.lipschitz() + 4.0 / max(hmax, 1e-300)) + hmax ** 3 * prob.d4ystar_max() / 24.0
    # ---- (1) inside the step being processed: events appended between callbacks lie in that step
    prev_e, prev_rows = 0, 1
    for (ne, rows) in marks:
        new = evs[prev_e:ne]
        if len(new) >= 2:
            rec.bump("steps_with_two_events")
        lo, hi = sorted([float(t[prev_rows - 1]), float(t[rows - 1])])
        for e in new:
            if not (lo <= float(e.t) <= hi):
                rec.violate("event_outside_step", "event_time_outside_the_step_in_which_it_was_found", feats, t_e=float(e.t), step=[lo, hi])
        prev_e, prev_rows = ne, rows
    # ---- (2) y_e equals the interpolant at detection time
    det = {}
    for st in trace.steps:
        for r, v, j in zip(st.get("active_roots", []), st.get("sol_at_roots", []), st.get("active", [])):
            det.setdefault((j, float(r)), v)
    for e in evs:
        j = idx_of.get(id(e.event))
        v = det.get((j, float(e.t)))
        if v is None:
            rec.violate("event_not_traced", "reported_event_never_returned_by_handle_events", feats, t_e=float(e.t), ev=j)
        elif not np.array_equal(np.asarray(e.y), v):
            rec.violate("event_state", "event_state_differs_from_interpolant_at_event_time", feats, t_e=float(e.t), err=float(np.max(np.abs(np.asarray(e.y) - v))))
        if spec["dense"] and system.sol is not None:
            v2 = system.sol(e.t)
            if not np.array_equal(np.asarray(e.y), np.asarray(v2)):
                rec.violate("event_state", "event_state_differs_from_dense_solution", feats, t_e=float(e.t), err=float(np.max(np.abs(np.asarray(e.y) - v2))))
    # ---- (3) order along the direction of integration
    te = np.array([float(e.t) for e in evs])
    if len(te) > 1 and not np.all(d * np.diff(te) >= 0):
        k = int(np.nonzero(d * np.diff(te) < 0)[0][0])
        rec.violate("event_order", "events_not_listed_along_direction_of_integration", feats, pair=[float(te[k]), float(te[k + 1])], index=k)
    # ---- (4) residual, true root, direction, uniqueness - per event function
    tmax = float(np.max(np.abs(t)))
    ymax = float(np.max(np.abs(y)))
    for j, ev in enumerate(events):
        mine = [e for e in evs if idx_of.get(id(e.event)) == j]
        roots, gmax = true_roots(ev, prob, t0, tf)
        gs = ev.gscale(tmax if ev.kind == "time" else ymax)
        if ev.kind == "dstate" and ddy * float(np.sum(np.abs(ev.w))) * abs(ev.s) > 0.02 * gmax:
            # the event sees the interpolant's SLOPE (error O(h^3) + node error/h): for coarse or low-order runs its roots are not those
            # of the exact trajectory - only the observation-based clauses (1)-(3) apply
            rec.bump("skipped_dstate_event_on_inaccurate_run", len(mine))
            continue
        used = {}
        # uniqueness from the observations alone: two reports of one function closer than the location resolution
        mt = sorted(float(e.t) for e in mine)
        for a, b in zip(mt[:-1], mt[1:]):
            if abs(b - a) <= 100 * max(4 * eps * (1 + abs(a)), 4 * float(np.spacing(abs(a)))):
                rec.violate("event_duplicate", "one_crossing_reported_twice", dict(feats, ev_kind=ev.kind, case=spec["kind"]), t_e=[a, b])
        for e in mine:
            rec.bump("events_checked")
            if d < 0:
                rec.bump("events_backward")
            if not spec["dense"]:
                rec.bump("events_nodense")
            if spec["kind"] == "boundary":
                rec.bump("boundary_root_events")
                if spec.get("shared"):
                    rec.bump("boundary_root_events_sharing_a_step")
            if spec["kind"] == "row_root":
                rec.bump("events_with_the_root_on_a_recorded_row_state_dependent")
            if spec["kind"] == "smallstep":
                rec.bump("events_on_small_steps")
                if spec.get("fixed_h", 1.0) < 1e-4:
                    rec.bump("events_on_tiny_steps")
            tev = float(e.t)
            ulp = float(np.spacing(abs(tev))) if tev != 0 else 0.0
            tolx = max(4 * eps * (1 + abs(tev)), 4 * ulp)
            # nearest true root
            if not roots and spec["kind"] == "row_root":
                # the level is a value of the NUMERICAL solution: near a turning point of the component the exact trajectory may never reach it
                rec.bump("skipped_row_level_not_reached_by_the_exact_trajectory")
                continue
            if not roots:
                rec.violate("event_no_true_root", "reported_event_but_g_has_no_root_along_exact_trajectory", dict(feats, ev_kind=ev.kind), t_e=tev, event=ev.spec)
                continue
            i = int(np.argmin([abs(r[0] - tev) for r in roots]))
            tr, gd = roots[i]
            gd_scale = gmax / max(abs(tf - t0), 1e-300)
            if abs(gd) < 0.05 * gd_scale:
                rec.bump("skipped_tangential")
                continue
            grad_h = abs(ev.s) * (float(np.sum(np.abs(ev.w))) if ev.kind in ("linear", "dstate") else (2 * ymax if ev.kind == "norm2" else 1.0))
            dyy = ddy if ev.kind == "dstate" else (0.0 if ev.kind == "time" else dy)
            loc_tol = K * (dyy * grad_h / abs(gd) + tolx)
            gaps = [abs(a[0] - b[0]) for a, b in zip(roots[:-1], roots[1:])]
            if loc_tol > 0.2 * min(gaps + [0.1 * abs(tf - t0)]):
                # the run is too inaccurate for the exact trajectory to identify individual crossings
                rec.bump("skipped_run_too_inaccurate_for_root_matching")
                continue
            rec.worst("location_error_over_tol", abs(tev - tr) / loc_tol)
            if abs(tev - tr) > loc_tol:
                rec.violate("event_location", "event_time_far_from_true_root", dict(feats, ev_kind=ev.kind), t_e=tev, true_root=tr, tol=loc_tol, event=ev.spec)
                continue
            # residual relative to steepness and magnitude
            gval = ev.value(e.t, np.asarray(e.y), lambda tt, yy: prob.rhs(tt, yy)) if ev.kind != "dstate" else None
            if gval is not None:
                res_tol = K * (abs(gd) * tolx * 4 + 64 * eps * gs)
                rec.worst("residual_over_tol", abs(gval) / res_tol)
                if abs(gval) > res_tol:
                    rec.violate("event_residual", "g_at_event_not_small_relative_to_its_steepness", dict(feats, ev_kind=ev.kind, scale_decade=int(np.floor(np.log10(abs(ev.s))))),
                                t_e=tev, g=gval, tol=res_tol, dgdt=gd)
            # direction: measured along the direction of integration
            if ev.direction != 0:
                going_up = (gd * d) > 0
                if (ev.direction > 0) != going_up:
                    rec.violate("event_direction", "reported_crossing_direction_incompatible_with_requested_direction", dict(feats, ev_kind=ev.kind),
                                t_e=tev, dgdt=gd, requested=ev.direction)
            # uniqueness: injective matching to true roots
            if i in used:
                rec.violate("event_duplicate", "one_crossing_reported_twice", dict(feats, ev_kind=ev.kind, case=spec["kind"]), t_e=[used[i], tev], true_root=tr)
            used[i] = tev
    # events_dict consistent with events
    try:
        ed = system.events_dict
        n = sum(len(np.atleast_1d(v.t)) for v in ed.values())
        if n != len(evs):
            rec.violate("events_dict", "events_dict_inconsistent_with_events", feats, n_dict=n, n_list=len(evs))
    except Exception as e:
        if evs:
            rec.violate("events_dict", "events_dict_raised", feats, err=repr(e)[:200])
    rec.sample = {"spec": {k: spec[k] for k in ("kind", "method", "direction", "dense", "t0", "tf", "nsteps")}, "events": evspecs[:2], "reported": len(evs),
                  "first_event_times": [float(x) for x in te[:4]], "node_error": node}
    return rec.out()
