"""C08 - no event crossing is missed (oracle entirely over observations of the run + in-situ detection trace)."""
import numpy as np

from vf import util, sysrun
from vf.events import Ev, random_event_spec, DetectionTrace, KINDS
from vf.problems import Manufactured, rng_for

LEVEL = "exploration"
RULE = ("one case = (method, direction, dense flag, 1..6 event functions g=s*(h-c) with |s| over 12 decades, kinds component/linear/time/"
        "norm2/derivative-dependent/steep, direction -1/0/+1); after the run every event function is evaluated on the recorded grid: a strict "
        "sign change over a recorded step in an accepted direction (or an exact zero on a grid point between opposite signs) requires a reported "
        "event of that function inside the step; misses are attributed with the wrapped root_finder/handle_events trace; non-trivial = >=1 "
        "crossing step observed; distinct by (method,direction,dense,scale decades,#events,seed)")
ASSUMPTIONS = ["derivative-dependent events: a crossing is counted only when |g| at both step ends exceeds 1e3*eps*|s|*(|h|+|c|) (the slope handed to the "
               "event function comes from the interpolant); all other families are judged on the strict signs at the recorded rows",
               "terminal runs: only the rows actually recorded (up to the stop) are judged"]
RULE += " Strata added in the fourth seeding round: Calls handed over from a call that monitored other functions (crossing in the first step) and event objects first monitored by another system with other attributes."
FLOORS = {"quick": {"crossing_steps_fwd_dense": 50, "crossing_steps_fwd_nodense": 50, "crossing_steps_bwd_dense": 50, "crossing_steps_bwd_nodense": 50,
                    "boundary_crossings": 4, "root_finder_calls_traced": 2000, "near_boundary_crossings_end": 8, "near_boundary_crossings_start": 8,
                    "crossings_in_terminal_runs_fwd": 10, "crossings_in_terminal_runs_bwd": 10, "crossings_sharing_the_terminal_step": 6, "terminal_stops": 20, "crossings_of_extreme_scale_functions": 40, "crossings_far_from_the_origin_with_fast_dynamics": 300, "runs_after_a_survey_with_other_attributes": 8, "crossings_in_the_first_step_after_a_handover": 5},
          "thorough": {"crossing_steps_fwd_dense": 500, "crossing_steps_fwd_nodense": 500, "crossing_steps_bwd_dense": 500, "crossing_steps_bwd_nodense": 500,
                       "boundary_crossings": 40, "root_finder_calls_traced": 20000, "near_boundary_crossings_end": 40, "near_boundary_crossings_start": 40,
                       "crossings_in_terminal_runs_fwd": 60, "crossings_in_terminal_runs_bwd": 60, "crossings_sharing_the_terminal_step": 30, "terminal_stops": 100, "crossings_of_extreme_scale_functions": 200, "crossings_far_from_the_origin_with_fast_dynamics": 1500, "runs_after_a_survey_with_other_attributes": 40, "crossings_in_the_first_step_after_a_handover": 25}}
QUICK_METHODS = ["RK45CKSolver", "DOPRI45", "RK4Solver", "EulerSolver", "RK8713MSolver", "ABAs5o6HSolver", "SymplecticEulerSolver",
                 "BackwardEuler", "RadauIIA5", "GaussLegendre4", "HeunEulerSolver", "MidpointSolver"]
CASE_TIMEOUT = 900


def gen_cases(tier, seed):
    M = util.methods()
    rng = rng_for(801, seed)
    names = QUICK_METHODS if tier == "quick" else list(M)
    cases = []
    reps = 1 if tier == "quick" else 3
    for name in names:
        info = M[name]
        for d in (1, -1):
            for dense in (True, False):
                for r in range(reps):
                    L = float(rng.uniform(3.0, 7.0))
                    t0 = float(rng.uniform(-4, 4))
                    nev = int(rng.integers(1, 7))
                    rdt = rng.random()
                    dtn = "float64" if rdt < 0.7 else ("float32" if rdt < 0.85 or not info["explicit"] else "longdouble")
                    cases.append(dict(kind="random", method=name, direction=d, dense=dense, t0=t0, tf=t0 + d * L, nsteps=float(rng.uniform(25, 70)), dtype=dtn,
                                      nev=nev, pseed=int(rng.integers(1 << 30)), cost=(2 if info["explicit"] else 14) * (1 + nev / 3.0)))
    # histories: (handover) an earlier call on the same system monitored OTHER functions (as many of them) up to a time just before a crossing of the
    # new ones - the first step of the new call contains a strict sign change; (surveyed) the same function objects were monitored before by another
    # system while they carried other `direction` attributes
    rngh = rng_for(803, seed)
    for name in names:
        for d in (1, -1):
            for hk in ("handover", "surveyed"):
                if tier == "quick" and rngh.random() < 0.3:
                    continue
                L = float(rngh.uniform(3.0, 7.0))
                t0 = float(rngh.uniform(-4, 4))
                cases.append(dict(kind="random", history=hk, method=name, direction=d, dense=bool(rngh.random() < 0.5), t0=t0, tf=t0 + d * L, nsteps=float(rngh.uniform(25, 70)),
                                  dtype="float64", nev=int(rngh.integers(1, 5)), pseed=int(rngh.integers(1 << 30)), cost=(3 if M[name]["explicit"] else 18)))
    # event functions of extreme magnitude (1e-30 .. 1e12)
    for name in (["RK45CKSolver", "RK4Solver", "DOPRI45", "BackwardEuler"] if tier == "quick" else names):
        for d in (1, -1):
            for sd in ((-30, -12), (6, 12)):
                L = float(rng.uniform(3.0, 7.0))
                t0 = float(rng.uniform(-4, 4))
                cases.append(dict(kind="random", method=name, direction=d, dense=bool(rng.random() < 0.5), t0=t0, tf=t0 + d * L, nsteps=float(rng.uniform(25, 70)),
                                  nev=4, scale_decades=list(sd), pseed=int(rng.integers(1 << 30)), cost=(4 if M[name]["explicit"] else 28)))
    # a time axis far from the origin with dynamics fast relative to it: the same function crosses every 2-4 steps, the crossings are ~1e-5 apart
    # at |t| ~ 1e5..2e6 (distinct crossings in distinct steps - nothing about them is a duplicate)
    for name in (["RK4Solver", "EulerSolver", "RK45CKSolver"] if tier == "quick" else [n for n in M if M[n]["explicit"]]):
        for d in (1, -1):
            for r in range(2 if tier == "quick" else 3):
                t0 = float(rng.choice([-1, 1])) * float(10 ** rng.uniform(5, 6.3))
                hh = float(rng.choice([5e-6, 2e-6, 1e-5]))
                cases.append(dict(kind="far_fast", method=name, direction=d, dense=bool(rng.random() < 0.5), t0=t0, tf=t0 + d * 300 * hh, nsteps=300.0, nev=3,
                                  pseed=int(rng.integers(1 << 30)), cost=6))
    # crossings exactly on step boundaries: fixed-step runs on a binary grid with time events at grid points
    for name in (["RK4Solver", "EulerSolver", "ABAs5o6HSolver", "MidpointSolver"] if tier == "quick" else [n for n in M if M[n]["explicit"] and not M[n]["adaptive"]]):
        for d in (1, -1):
            for dense in (True, False):
                cases.append(dict(kind="boundary", method=name, direction=d, dense=dense, t0=0.0 if d > 0 else 2.0, tf=2.0 if d > 0 else 0.0,
                                  nsteps=32.0, nev=3, pseed=int(rng.integers(1 << 30)), cost=3))
    # crossings a few ulps inside a step end: the level of the event is the value at a recorded row of an event-free reference run, shifted by
    # +-1..5 ulps, so that g at that row is tiny, non-zero and has (or has not yet) changed sign
    nb = ["RK4Solver", "EulerSolver", "ABAs5o6HSolver", "RK45CKSolver"] if tier == "quick" else [n for n in M if M[n]["explicit"]]
    for name in nb:
        for d in (1, -1):
            for dense in (True, False):
                for r in range(reps):
                    t0 = float(rng.uniform(-3, 3))
                    cases.append(dict(kind="near_boundary", method=name, direction=d, dense=dense, t0=t0, tf=t0 + d * float(rng.uniform(2.0, 4.0)),
                                      nsteps=float(rng.uniform(24, 40)), nev=6, pseed=int(rng.integers(1 << 30)), cost=4))
    # a terminal event sharing its step with non-terminal crossings met before (and after) it
    tm_ = ["RK4Solver", "RK45CKSolver", "DOPRI45", "ABAs5o6HSolver", "BackwardEuler", "RK8713MSolver"] if tier == "quick" else list(M)
    for name in tm_:
        for d in (1, -1):
            for dense in (True, False):
                for r in range(2 * reps):
                    t0 = float(rng.uniform(-4, 4))
                    cases.append(dict(kind="terminal_mix", method=name, direction=d, dense=dense, t0=t0, tf=t0 + d * float(rng.uniform(3.0, 6.0)),
                                      nsteps=float(rng.uniform(12, 30)), nev=int(rng.integers(3, 7)), pseed=int(rng.integers(1 << 30)),
                                      dtype=str(rng.choice(["float64", "float64", "float64", "float32"] + (["longdouble"] if M[name]["explicit"] else []))),
                                      cost=(3 if M[name]["explicit"] else 12)))
    return cases


def _shift(x, n):
    x = np.float64(x)
    for _ in range(abs(int(n))):
        x = np.nextafter(x, np.float64(np.inf if n > 0 else -np.inf))
    return float(x)


def _near_boundary_events(spec, prob, info, f, y0, t0, tf, rng, dim, rec):
    """event levels from the rows of an event-free reference run of the same system (same steps: non-terminal events never change them)"""
    ref = sysrun.make_system(f, y0, t0, tf, abs(tf - t0) / spec["nsteps"], info["cls"], dense=spec["dense"], rtol=1e-6, atol=1e-8)
    seg = sysrun.call_integrate(ref, max_steps=20000)
    if seg["raised"]:
        return [], None
    t = np.asarray(ref.t)
    y = np.asarray(ref.y)
    out = []
    tries = 0
    while len(out) < spec["nev"] and tries < 60 and len(t) > 6:
        tries += 1
        k = int(rng.integers(2, len(t) - 2))
        kind = str(rng.choice(["component", "linear", "time", "norm2"]))
        es = {"kind": kind, "scale": float(10 ** rng.uniform(-6, 6)) * float(rng.choice([-1, 1])), "direction": 0, "terminal": False}
        if kind == "component":
            es["i"] = int(rng.integers(dim))
        elif kind == "linear":
            es["w"] = [float(x) for x in rng.uniform(-1, 1, dim)]
        es["c"] = 0.0
        e0 = Ev(es, dim)
        hv = [float(e0.h(np.asarray(t[j]), np.asarray(y[j]))) for j in (k - 1, k, k + 1)]
        if not ((hv[0] - hv[1]) * (hv[2] - hv[1]) < 0 and abs(hv[0] - hv[1]) > 1e-6 * (1 + abs(hv[1])) and abs(hv[2] - hv[1]) > 1e-6 * (1 + abs(hv[1]))):
            continue      # h is not strictly monotone through row k
        n = int(rng.choice([-5, -2, -1, 1, 2, 5]))
        es["c"] = _shift(hv[1], n)
        going_up = hv[2] > hv[0]
        if rng.random() < 0.5:
            es["direction"] = int(1 if (going_up == (es["scale"] > 0)) else -1)     # the direction this crossing has, along the integration
        es["near_row"] = k
        es["ulps"] = n
        out.append(es)
    return out, (t, y)


def run_case(spec):
    M = util.methods()
    info = M[spec["method"]]
    d = spec["direction"]
    t0, tf = spec["t0"], spec["tf"]
    dim = 2 if not info["splitting"] else 2
    prob = Manufactured(dim, spec["pseed"], direction=d, freq=(1.0, 3.0))
    rng = rng_for(802, spec["pseed"])
    from vf.problems import dtype_of
    dt_ = dtype_of(spec.get("dtype", "float64"))
    eps = float(np.finfo(dt_).eps)
    evspecs = []
    ref_rows = None

    def f(t, y, **kw):
        return prob.rhs(t, y)
    y0 = prob.ystar(t0).astype(dt_)
    L = abs(tf - t0)
    if spec["kind"] == "boundary":
        for c in (0.5, 1.0, 1.5):
            evspecs.append({"kind": "time", "scale": float(10 ** rng.uniform(-3, 3)) * float(rng.choice([-1, 1])), "c": c, "direction": 0, "terminal": False})
    elif spec["kind"] == "far_fast":
        hh = L / spec["nsteps"]
        for _ in range(spec["nev"]):
            per = hh * float(rng.uniform(4.0, 9.0))
            evspecs.append({"kind": "tsin", "omega": 2 * np.pi / per, "tref": t0 + float(rng.uniform(0, 1)) * per, "scale": float(10 ** rng.uniform(-6, 6)) * float(rng.choice([-1, 1])),
                            "c": float(rng.uniform(-0.6, 0.6)), "direction": int(rng.choice([-1, 0, 0, 1])), "terminal": False})
    elif spec["kind"] == "near_boundary":
        evspecs, ref_rows = _near_boundary_events(spec, prob, info, f, y0, t0, tf, rng, dim, None)
        if not evspecs:
            rec0 = util.Rec(sig="nb-none")
            rec0.skipped = "no monotone row found for a near-boundary level"
            return rec0.out()
    elif spec["kind"] == "terminal_mix":
        h = L / spec["nsteps"]
        tau = t0 + float(rng.uniform(0.3, 0.8)) * (tf - t0)
        evspecs.append(random_event_spec(rng, prob, t0, tf, dim, terminal=True, kinds=["time", "component", "linear"], tm=tau))
        evspecs[0]["direction"] = 0
        for j in range(spec["nev"] - 1):
            before = j < max(1, spec["nev"] - 2)
            off = float(rng.uniform(0.04, 0.85)) * h * (-d if before else d)
            evspecs.append(random_event_spec(rng, prob, t0, tf, dim, terminal=False, kinds=["time", "component", "linear", "norm2"], tm=tau + off))
    else:
        t_hand = None
        for _ in range(spec["nev"]):
            evspecs.append(random_event_spec(rng, prob, t0, tf, dim, terminal=False, scale_decades=tuple(spec.get("scale_decades", (-6, 6)))))
        if spec.get("history") == "handover":
            tm0 = t0 + float(rng.uniform(0.3, 0.7)) * (tf - t0)
            evspecs[0] = random_event_spec(rng, prob, t0, tf, dim, terminal=False, kinds=["component", "linear", "time"], tm=tm0)
            evspecs[0]["direction"] = 0
            t_hand = tm0 - d * float(rng.uniform(0.15, 0.5)) * L / spec["nsteps"]
        if spec["nev"] >= 2 and rng.random() < 0.6:
            # different functions crossing at the SAME instant (same surface, different scale/sign): every one of them must be reported
            base_ev = evspecs[0]
            for j in range(1, min(spec["nev"], 1 + int(rng.integers(1, 3)))):
                e2 = dict(base_ev)
                e2["scale"] = float(base_ev["scale"]) * float(rng.choice([-1, 1])) * float(10 ** rng.uniform(-2, 2))
                e2["direction"] = 0
                evspecs[j] = e2
    events = [Ev(s, dim) for s in evspecs]
    decs = sorted(set(int(np.floor(np.log10(abs(e.s)))) for e in events))
    rec = util.Rec(sig="%s|%d|%s|%s|%d|%d" % (spec["method"], d, spec["dense"], decs, len(events), spec["pseed"] % 11))
    feats = {"method": spec["method"], "family": info["family"], "direction": d, "dense": bool(spec["dense"]), "case_kind": spec["kind"]}
    if spec.get("dtype", "float64") != "float64":
        feats["dtype"] = spec["dtype"]
        rec.bump("runs_in_" + spec["dtype"])
    tolkw = dict(rtol=1e-6, atol=1e-8) if spec.get("dtype", "float64") != "float32" else dict(rtol=1e-3, atol=1e-4)
    system = sysrun.make_system(f, y0, t0, tf, dt_.type(L / spec["nsteps"]), info["cls"], dense=spec["dense"], **tolkw)
    k_start = 0
    if spec.get("history") == "surveyed":
        saved = [e.direction for e in events]
        for e in events:
            e.direction = 1
        try:
            scout = sysrun.make_system(f, y0.copy(), t0, tf, dt_.type(L / spec["nsteps"]), info["cls"], dense=False, **tolkw)
            sc_ = sysrun.call_integrate(scout, t=t0 + 0.4 * (tf - t0), events=events, max_steps=20000)
            if not sc_["raised"]:
                rec.bump("runs_after_a_survey_with_other_attributes")
                feats["history"] = "surveyed"
        finally:
            for e, di_ in zip(events, saved):
                e.direction = di_
    if spec.get("history") == "handover" and t_hand is not None:
        # the sign-flipped twins of the case's functions are monitored up to the hand-over time; the case's own functions from there
        pre_events = [Ev(dict(s_, scale=-float(s_["scale"]), direction=0), dim) for s_ in evspecs]
        pre = sysrun.call_integrate(system, t=t_hand, events=pre_events, max_steps=20000)
        if not pre["raised"] and len(system) > 1:
            k_start = len(system) - 1
            rec.bump("runs_handed_over_from_a_call_with_other_functions")
            feats["history"] = "handover"
    trace = DetectionTrace()
    try:
        seg = sysrun.call_integrate(system, events=events, max_steps=20000)
    finally:
        trace.close()
    rec.bump("root_finder_calls_traced", len(trace.steps))
    if seg["raised"]:
        cause = getattr(seg["exc"], "__cause__", None)
        rec.bump("raised_" + type(cause or seg["exc"]).__name__)
        rec.violate("event_run_raised", type(cause or seg["exc"]).__name__, feats, err=repr(cause or seg["exc"])[:300])
        return rec.out()
    t = np.asarray(system.t)
    y = np.asarray(system.y)
    reported = {}
    for e in system.events:
        reported.setdefault(id(e.event), []).append(float(e.t))
    key = "crossing_steps_%s_%s" % ("fwd" if d > 0 else "bwd", "dense" if spec["dense"] else "nodense")
    nterm = sum(1 for e in system.events if getattr(e.event, "is_terminal", False))
    # rows recorded while landing on the terminal root (the rolled-back step is re-integrated in sub-steps): from the detection trace
    landing_rows = 0
    term_step = None
    if nterm:
        rec.bump("terminal_stops")
        term_steps = [st for st in trace.steps if st.get("terminate")]
        if term_steps:
            term_step = term_steps[-1]
            a_, b_ = sorted([term_steps[-1]["t_prev"], term_steps[-1]["t_next"]])
            landing_rows = int(np.sum((t > a_) & (t <= b_))) if d > 0 else int(np.sum((t >= a_) & (t < b_)))
    if ref_rows is not None:
        same = len(ref_rows[0]) == len(t) and np.array_equal(ref_rows[0], t) and np.array_equal(ref_rows[1], y)
        rec.bump("near_boundary_rows_identical_to_reference" if same else "near_boundary_rows_differ_from_reference")
    ncross = 0
    tmax = float(np.max(np.abs(t)))
    ymax = float(np.max(np.abs(y)))
    for j, ev in enumerate(events):
        g = np.array([ev.value(t[k], y[k], lambda tt, yy: prob.rhs(tt, yy)) for k in range(len(t))])
        # every family but the derivative-dependent one is a deterministic function of (t, y) and the step's interpolant returns the recorded
        # rows bit-exactly at its end points: the detection sees exactly the signs computed here, so no rounding guard is needed
        guard = 1e3 * eps * ev.gscale(tmax if ev.kind == "time" else ymax) if ev.kind == "dstate" else 0.0
        times = reported.get(id(ev), [])
        k = k_start
        while k < len(t) - 1:
            a, b = g[k], g[k + 1]
            k2 = k + 1
            kind = None
            if abs(a) > guard and abs(b) > guard and a * b < 0:
                kind = "interior"
            elif abs(a) > guard and abs(b) <= guard and k + 2 < len(t) and abs(g[k + 2]) > guard and a * g[k + 2] < 0 and b == 0.0:
                kind = "boundary"
                k2 = k + 2
                b = g[k + 2]
            if kind:
                # direction along the direction of integration: a -> b
                going_up = b > a
                if ev.direction == 0 or (ev.direction > 0) == going_up:
                    ncross += 1
                    rec.bump(key)
                    if kind == "boundary":
                        rec.bump("boundary_crossings")
                    if spec.get("scale_decades"):
                        rec.bump("crossings_of_extreme_scale_functions")
                    if spec["kind"] == "far_fast":
                        rec.bump("crossings_far_from_the_origin_with_fast_dynamics")
                    if k_start and k == k_start:
                        rec.bump("crossings_in_the_first_step_after_a_handover")
                    if spec["kind"] == "near_boundary" and min(abs(a), abs(b)) <= 64 * eps * ev.gscale(tmax if ev.kind == "time" else ymax):
                        rec.bump("near_boundary_crossings")
                        rec.bump("near_boundary_crossings_%s" % ("end" if abs(b) < abs(a) else "start"))
                    if spec["kind"] == "terminal_mix":
                        rec.bump("crossings_in_terminal_runs_%s" % ("fwd" if d > 0 else "bwd"))
                        if nterm and (k2 >= len(t) - 1 - landing_rows):
                            rec.bump("crossings_sharing_the_terminal_step")
                    lo, hi = sorted([float(t[k]), float(t[k2])])
                    # the stop lands on the terminal root to within the end-of-span tolerance of the integration loop (C09 judges how closely)
                    slack = 64 * eps * max(1.0, tmax) if ev.is_terminal else 0.0
                    if not any(lo - slack <= te <= hi + slack for te in times):
                        in_landing = term_step is not None and k2 >= len(t) - 1 - landing_rows and k >= len(t) - 1 - landing_rows
                        mech = _attribute_landing(term_step, j, lo, hi, requested=ev.direction) if in_landing else _attribute(trace, j, lo, hi)
                        rec.violate("missed_crossing", mech, dict(feats, ev_kind=ev.kind, scale_decade=int(np.floor(np.log10(abs(ev.s)))), crossing=kind),
                                    step=[float(t[k]), float(t[k2])], g_ends=[float(a), float(b)], reported_times=times[:6], event=ev.spec)
            k = k2 if kind == "boundary" else k + 1
    rec.nontrivial = ncross > 0
    rec.sample = {"spec": {k: spec[k] for k in ("kind", "method", "direction", "dense", "t0", "tf", "nsteps")}, "events": evspecs[:3], "crossing_steps": ncross,
                  "reported": len(system.events), "rows": len(t)}
    return rec.out()


def _attribute_landing(st, j, lo, hi, requested=0):
    """a crossing over one of the sub-steps that land on a terminal root: the rolled-back step `st` is the only one event detection saw."""
    if st.get("fa") is None:
        return "unattributed_landing_crossing"
    fa, fb = st["fa"][j], st["fb"][j]
    if fa * fb > 0:
        return "landing_substeps_of_a_terminal_stop_are_not_monitored"    # even number of crossings inside the rolled-back step
    if requested != 0 and fa * fb < 0 and (fb > fa) != (requested > 0):
        # an odd number (>= 3) of crossings: over the WHOLE rolled-back step the function moves against the requested direction, which is what the
        # detection saw and (correctly, for that step) filtered; the compatible crossing in between only exists on the landing sub-steps
        return "landing_substeps_of_a_terminal_stop_are_not_monitored"
    r = st["roots"][j]
    tol = 1e-9 * max(1.0, abs(lo), abs(hi))
    if st["success"][j] and lo - tol <= r <= hi + tol:
        return "root_located_in_the_rolled_back_step_before_the_terminal_root_but_not_reported"
    return "landing_substeps_of_a_terminal_stop_are_not_monitored"        # the root located over the rolled-back step is another crossing of this function


def _attribute(trace, j, lo, hi):
    """which stage of the detection pipeline lost the crossing (in-situ trace of that step)."""
    for st in trace.steps:
        a, b = sorted([st.get("t_prev", np.nan), st.get("t_next", np.nan)])
        if a >= lo - 1e-15 and b <= hi + 1e-15 and st.get("fa") is not None:
            fa, fb = st["fa"][j], st["fb"][j]
            if fa * fb < 0 or fa == 0 or fb == 0:
                if not st["success"][j]:
                    return "root_finder_reported_failure_on_a_sign_change_bracket"
                if j not in st.get("active", []):
                    return "located_root_dropped_by_direction_classification"
                return "active_root_not_recorded_as_event"
            return "interpolant_shows_no_sign_change_on_the_step"
    return "step_not_seen_by_event_detection"
