"""C08 - no event crossing is missed (oracle entirely over observations of the run + in-situ detection trace)."""
import numpy as np

from vf import util, sysrun
from vf.events import Ev, random_event_spec, DetectionTrace, KINDS
from vf.problems import Manufactured, rng_for

LEVEL = "exploration"
RULE = ("one case = (method, direction, dense flag, 1..6 event functions g=s*(h-c) with |s| over 12 decades, kinds component/linear/time/"
        "norm2/derivative-dependent/steep, direction -1/0/+1); after the run every event function is evaluated on the recorded grid: a strict "
        "sign change over a recorded step in an accepted direction (or an exact zero on a grid point between opposite signs) requires a reported "
        "event of that function inside the step; misses are attributed with the wrapped root_finder/handle_events trace; non-trivial = >=1 "
        "crossing step observed; distinct by (method,direction,dense,scale decades,#events,seed)")
ASSUMPTIONS = ["a crossing is counted only when |g| at both step ends exceeds 1e3*eps*|s|*(|h|+|c|) (rounding guard)"]
FLOORS = {"quick": {"crossing_steps_fwd_dense": 50, "crossing_steps_fwd_nodense": 50, "crossing_steps_bwd_dense": 50, "crossing_steps_bwd_nodense": 50,
                    "boundary_crossings": 4, "root_finder_calls_traced": 2000},
          "thorough": {"crossing_steps_fwd_dense": 500, "crossing_steps_fwd_nodense": 500, "crossing_steps_bwd_dense": 500, "crossing_steps_bwd_nodense": 500,
                       "boundary_crossings": 40, "root_finder_calls_traced": 20000}}
QUICK_METHODS = ["RK45CKSolver", "DOPRI45", "RK4Solver", "EulerSolver", "RK8713MSolver", "ABAs5o6HSolver", "SymplecticEulerSolver",
                 "BackwardEuler", "RadauIIA5", "GaussLegendre4", "HeunEulerSolver", "MidpointSolver"]
CASE_TIMEOUT = 900


def gen_cases(tier, seed):
    M = util.methods()
    rng = rng_for(801, seed)
    names = QUICK_METHODS if tier == "quick" else list(M)
    cases = []
    reps = 1 if tier == "quick" else 3
    for name in names:
        info = M[name]
        for d in (1, -1):
            for dense in (True, False):
                for r in range(reps):
                    L = float(rng.uniform(3.0, 7.0))
                    t0 = float(rng.uniform(-4, 4))
                    nev = int(rng.integers(1, 7))
                    cases.append(dict(kind="random", method=name, direction=d, dense=dense, t0=t0, tf=t0 + d * L, nsteps=float(rng.uniform(25, 70)),
                                      nev=nev, pseed=int(rng.integers(1 << 30)), cost=(2 if info["explicit"] else 14) * (1 + nev / 3.0)))
    # crossings exactly on step boundaries: fixed-step runs on a binary grid with time events at grid points
    for name in (["RK4Solver", "EulerSolver", "ABAs5o6HSolver", "MidpointSolver"] if tier == "quick" else [n for n in M if M[n]["explicit"] and not M[n]["adaptive"]]):
        for d in (1, -1):
            for dense in (True, False):
                cases.append(dict(kind="boundary", method=name, direction=d, dense=dense, t0=0.0 if d > 0 else 2.0, tf=2.0 if d > 0 else 0.0,
                                  nsteps=32.0, nev=3, pseed=int(rng.integers(1 << 30)), cost=3))
    return cases


def run_case(spec):
    M = util.methods()
    info = M[spec["method"]]
    d = spec["direction"]
    t0, tf = spec["t0"], spec["tf"]
    dim = 2 if not info["splitting"] else 2
    prob = Manufactured(dim, spec["pseed"], direction=d, freq=(1.0, 3.0))
    rng = rng_for(802, spec["pseed"])
    dt_ = np.dtype("float64")
    eps = float(np.finfo(dt_).eps)
    evspecs = []
    if spec["kind"] == "boundary":
        for c in (0.5, 1.0, 1.5):
            evspecs.append({"kind": "time", "scale": float(10 ** rng.uniform(-3, 3)) * float(rng.choice([-1, 1])), "c": c, "direction": 0, "terminal": False})
    else:
        for _ in range(spec["nev"]):
            evspecs.append(random_event_spec(rng, prob, t0, tf, dim, terminal=False))
        if spec["nev"] >= 2 and rng.random() < 0.6:
            # different functions crossing at the SAME instant (same surface, different scale/sign): every one of them must be reported
            base_ev = evspecs[0]
            for j in range(1, min(spec["nev"], 1 + int(rng.integers(1, 3)))):
                e2 = dict(base_ev)
                e2["scale"] = float(base_ev["scale"]) * float(rng.choice([-1, 1])) * float(10 ** rng.uniform(-2, 2))
                e2["direction"] = 0
                evspecs[j] = e2
    events = [Ev(s, dim) for s in evspecs]
    decs = sorted(set(int(np.floor(np.log10(abs(e.s)))) for e in events))
    rec = util.Rec(sig="%s|%d|%s|%s|%d|%d" % (spec["method"], d, spec["dense"], decs, len(events), spec["pseed"] % 11))
    feats = {"method": spec["method"], "family": info["family"], "direction": d, "dense": bool(spec["dense"]), "case_kind": spec["kind"]}

    def f(t, y, **kw):
        return prob.rhs(t, y)
    y0 = prob.ystar(t0).astype(dt_)
    L = abs(tf - t0)
    system = sysrun.make_system(f, y0, t0, tf, L / spec["nsteps"], info["cls"], dense=spec["dense"], rtol=1e-6, atol=1e-8)
    trace = DetectionTrace()
    try:
        seg = sysrun.call_integrate(system, events=events, max_steps=20000)
    finally:
        trace.close()
    rec.bump("root_finder_calls_traced", len(trace.steps))
    if seg["raised"]:
        cause = getattr(seg["exc"], "__cause__", None)
        rec.bump("raised_" + type(cause or seg["exc"]).__name__)
        rec.violate("event_run_raised", type(cause or seg["exc"]).__name__, feats, err=repr(cause or seg["exc"])[:300])
        return rec.out()
    t = np.asarray(system.t)
    y = np.asarray(system.y)
    reported = {}
    for e in system.events:
        reported.setdefault(id(e.event), []).append(float(e.t))
    key = "crossing_steps_%s_%s" % ("fwd" if d > 0 else "bwd", "dense" if spec["dense"] else "nodense")
    ncross = 0
    tmax = float(np.max(np.abs(t)))
    ymax = float(np.max(np.abs(y)))
    for j, ev in enumerate(events):
        g = np.array([ev.value(t[k], y[k], lambda tt, yy: prob.rhs(tt, yy)) for k in range(len(t))])
        guard = 1e3 * eps * ev.gscale(tmax if ev.kind == "time" else ymax)
        times = reported.get(id(ev), [])
        k = 0
        while k < len(t) - 1:
            a, b = g[k], g[k + 1]
            k2 = k + 1
            kind = None
            if abs(a) > guard and abs(b) > guard and a * b < 0:
                kind = "interior"
            elif abs(a) > guard and abs(b) <= guard and k + 2 < len(t) and abs(g[k + 2]) > guard and a * g[k + 2] < 0 and b == 0.0:
                kind = "boundary"
                k2 = k + 2
                b = g[k + 2]
            if kind:
                # direction along the direction of integration: a -> b
                going_up = b > a
                if ev.direction == 0 or (ev.direction > 0) == going_up:
                    ncross += 1
                    rec.bump(key)
                    if kind == "boundary":
                        rec.bump("boundary_crossings")
                    lo, hi = sorted([float(t[k]), float(t[k2])])
                    if not any(lo <= te <= hi for te in times):
                        mech = _attribute(trace, j, lo, hi)
                        rec.violate("missed_crossing", mech, dict(feats, ev_kind=ev.kind, scale_decade=int(np.floor(np.log10(abs(ev.s)))), crossing=kind),
                                    step=[float(t[k]), float(t[k2])], g_ends=[float(a), float(b)], reported_times=times[:6], event=ev.spec)
            k = k2 if kind == "boundary" else k + 1
    rec.nontrivial = ncross > 0
    rec.sample = {"spec": {k: spec[k] for k in ("kind", "method", "direction", "dense", "t0", "tf", "nsteps")}, "events": evspecs[:3], "crossing_steps": ncross,
                  "reported": len(system.events), "rows": len(t)}
    return rec.out()


def _attribute(trace, j, lo, hi):
    """which stage of the detection pipeline lost the crossing (in-situ trace of that step)."""
    for st in trace.steps:
        a, b = sorted([st.get("t_prev", np.nan), st.get("t_next", np.nan)])
        if a >= lo - 1e-15 and b <= hi + 1e-15 and st.get("fa") is not None:
            fa, fb = st["fa"][j], st["fb"][j]
            if fa * fb < 0 or fa == 0 or fb == 0:
                if not st["success"][j]:
                    return "root_finder_reported_failure_on_a_sign_change_bracket"
                if j not in st.get("active", []):
                    return "located_root_dropped_by_direction_classification"
                return "active_root_not_recorded_as_event"
            return "interpolant_shows_no_sign_change_on_the_step"
    return "step_not_seen_by_event_detection"
