"""C19 - trajectory lookup by index and by time returns the right sample."""
import numpy as np

from vf import util, sysrun
from vf.problems import Manufactured, rng_for

LEVEL = "exploration"
RULE = ("one case = (method (uniform or adaptive grid), direction, dense flag, with/without continuation, seed); integer indices in [-len-2, len+2] against a Python "
        "list of the recorded rows (IndexError outside), iteration yields each row once in order, time look-ups inside and outside the range: dense => "
        "bit-equal sol(t), otherwise a nearest recorded sample, whole-run time slices in either direction; non-trivial = >=5 recorded rows; distinct by "
        "(method, direction, dense, continuation, seed)")
ASSUMPTIONS = ["nearest: |t_ret - q| <= min_k |t_k - q| * (1 + 64 eps) + 4 ulp (ties may go either way)"]
RULE += " Strata added in the fourth seeding round: Six- and seven-level Richardson wrappers with dense output: every time inside a recorded step is answered by a piece that contains it."
FLOORS = {"quick": {"systems": 60, "index_lookups": 1500, "time_lookups_nodense": 2000, "time_lookups_dense": 800, "backward_systems": 20, "slices": 100, "iterations": 60, "early_sequence_checks": 120, "array_lookups": 15, "systems_with_grid_spacing_below_sqrt_eps": 8, "richardson_many_level_systems": 5, "richardson_lookups_checked_for_containment": 150},
          "thorough": {"systems": 600, "index_lookups": 15000, "time_lookups_nodense": 20000, "time_lookups_dense": 8000, "backward_systems": 200, "slices": 1000, "iterations": 600, "early_sequence_checks": 1200, "array_lookups": 150, "systems_with_grid_spacing_below_sqrt_eps": 80, "richardson_many_level_systems": 30, "richardson_lookups_checked_for_containment": 900}}
METHODS = ["RK4Solver", "RK45CKSolver", "DOPRI45", "EulerSolver", "RK8713MSolver", "ABAs5o6HSolver", "RadauIIA5", "HeunEulerSolver"]


def gen_cases(tier, seed):
    rng = rng_for(1901, seed)
    cases = []
    for i in range(80 if tier == "quick" else 800):
        cases.append(dict(method=METHODS[int(rng.integers(len(METHODS)))], direction=int(rng.choice([-1, 1])), dense=bool(rng.random() < 0.35),
                          cont=bool(rng.random() < 0.4), nsteps=float(rng.uniform(6, 40)), t0=float(rng.uniform(-5, 5)), pseed=int(rng.integers(1 << 30)), cost=2,
                          tscale=float(rng.choice([1.0, 1.0, 1.0, 1e-9, 1e-7, 1e-4, 1e3]))))
    # Richardson wrappers with many levels (their dense pieces come from the sub-steps of the levels; an extrapolation table that converges early
    # leaves its loop before the last level): time look-ups with dense output over EVERY recorded step, at tight tolerances
    rngr = rng_for(1903, seed)
    for i in range(8 if tier == "quick" else 48):
        base, n = [("MidpointSolver", 6), ("EulerSolver", 7), ("RK4Solver", 6), ("HeunsSolver", 6)][i % 4]
        cases.append(dict(method=base, rich=n, direction=int(rngr.choice([-1, 1])), dense=True, cont=bool(rngr.random() < 0.4), nsteps=float(rngr.choice([4.0, 6.0, 12.0])),
                          t0=float(rngr.uniform(-5, 5)), pseed=int(rngr.integers(1 << 30)), cost=12, tscale=1.0, rtol=float(rngr.choice([1e-9, 1e-10]))))
    return cases


def run_case(spec):
    M = util.methods()
    info = M[spec["method"]]
    if spec.get("rich"):
        info = dict(info, cls=util.richardson(info["cls"], spec["rich"]), adaptive=True, family="richardson")
    d = spec["direction"]
    prob = Manufactured(2, spec["pseed"], direction=d)
    rng = rng_for(1902, spec["pseed"])
    # the time axis is measured in units of `ts` (nanosecond-scale grids have spacings far below sqrt(eps), kilo-scale ones far above 1)
    ts = float(spec.get("tscale", 1.0))
    if not info["explicit"] and ts < 1:
        # implicit methods solve for stage SLOPES to an absolute tolerance; with slopes of size 1/ts that tolerance is unattainable and the
        # run ends with FailedToMeetTolerances (an honest failure - C05's subject, not a look-up question)
        ts = 1.0
    t0 = spec["t0"] * ts
    L1 = float(rng.uniform(1.0, 4.0))
    L = L1 * ts
    tf = t0 + d * L

    def rhs_scaled(t, y, **kw):
        return prob.rhs(t / ts, y) / ts
    system = sysrun.make_system(rhs_scaled, prob.ystar(spec["t0"]).astype(np.float64), t0, tf, L / spec["nsteps"], info["cls"], dense=spec["dense"], rtol=spec.get("rtol", 1e-5), atol=spec.get("rtol", 1e-5) * 1e-2)
    early = []     # observations taken on the freshly constructed system and from inside a step callback (storage not yet trimmed)

    def seq_check(sysm, where):
        n_ = len(sysm)
        tt, yy = np.array(sysm.t, copy=True), np.array(sysm.y, copy=True)
        rows_ = [(tt[k], yy[k]) for k in range(n_)]
        for i in (0, n_ - 1, n_, n_ + 1, -1, -n_, -n_ - 1):
            try:
                want, werr = rows_[i], None
            except IndexError:
                want, werr = None, IndexError
            try:
                got, gerr = sysm[i], None
            except IndexError:
                got, gerr = None, IndexError
            except Exception as e:
                got, gerr = None, type(e)
            if werr is not gerr:
                early.append(("index_semantics", "index_error_behaviour_differs_from_sequence", dict(where=where, index=i, n=n_, want="IndexError" if werr else "row", got=(gerr.__name__ if gerr else "row"))))
            elif want is not None and not (float(got.t) == float(want[0]) and np.array_equal(np.asarray(got.y), want[1])):
                early.append(("index_semantics", "index_returns_wrong_row", dict(where=where, index=i, n=n_)))
        try:
            it_ = list(iter(sysm))
            if len(it_) != n_:
                early.append(("iteration", "iteration_does_not_yield_each_row_once_in_order", dict(where=where, got=len(it_), want=n_)))
        except Exception as e:
            early.append(("iteration", "iteration_raised", dict(where=where, err=repr(e)[:100])))
    seq_check(system, "fresh_system")
    cb_state = {"n": 0}

    def cb(s_):
        cb_state["n"] += 1
        if cb_state["n"] in (1, 3):
            seq_check(s_, "inside_callback")
    if spec["cont"]:
        system.integrate(t0 + 0.45 * (tf - t0), callback=cb)
    system.integrate(callback=cb)
    rec = util.Rec(sig="%s|%d|%s|%s|%d" % (spec["method"], d, spec["dense"], spec["cont"], spec["pseed"] % 211))
    feats = {"method": spec["method"], "direction": d, "dense": spec["dense"], "continued": spec["cont"], "grid": "adaptive" if info["adaptive"] else "uniform",
             "time_scale": "unit" if ts == 1.0 else ("small" if ts < 1 else "large")}
    if ts < 1e-6:
        rec.bump("systems_with_grid_spacing_below_sqrt_eps")
    t = np.array(system.t, copy=True)
    y = np.array(system.y, copy=True)
    n = len(t)
    rec.bump("systems")
    rec.bump("early_sequence_checks", 1 + min(cb_state["n"], 2))
    for (c_, m_, d_) in early[:4]:
        rec.violate(c_, m_, dict(feats, where=d_.pop("where")), **d_)
    if d < 0:
        rec.bump("backward_systems")
    rec.nontrivial = n >= 5
    rows = [(t[k], y[k]) for k in range(n)]
    # ---- integer indices: sequence semantics
    for i in range(-n - 2, n + 3):
        rec.bump("index_lookups")
        try:
            want = rows[i]
            werr = None
        except IndexError:
            want, werr = None, IndexError
        try:
            got = system[i]
            gerr = None
        except IndexError:
            got, gerr = None, IndexError
        except Exception as e:
            got, gerr = None, type(e)
        if werr is not gerr:
            rec.violate("index_semantics", "index_error_behaviour_differs_from_sequence", dict(feats, side="negative" if i < 0 else "positive"), index=i, n=n,
                        want="IndexError" if werr else "row", got=(gerr.__name__ if gerr else "row"))
        elif want is not None and not (float(got.t) == float(want[0]) and np.array_equal(np.asarray(got.y), want[1])):
            rec.violate("index_semantics", "index_returns_wrong_row", feats, index=i, n=n)
    # ---- iteration
    try:
        it = list(iter(system))
        rec.bump("iterations")
        if len(it) != n or any(float(a.t) != float(b[0]) or not np.array_equal(np.asarray(a.y), b[1]) for a, b in zip(it, rows)):
            rec.violate("iteration", "iteration_does_not_yield_each_row_once_in_order", feats, got=len(it), want=n)
        if len(system) != n:
            rec.violate("iteration", "len_differs_from_number_of_rows", feats, got=len(system), want=n)
    except Exception as e:
        rec.violate("iteration", "iteration_raised", feats, err=repr(e)[:200])
    # ---- time look-ups
    lo, hi = float(np.min(t)), float(np.max(t))
    qs = np.concatenate([rng.uniform(lo, hi, 30), t[rng.integers(0, n, 6)], 0.5 * (t[:-1] + t[1:])[:6], [lo - 0.3 * L, hi + 0.3 * L, lo - 1e-9 * L, hi + 1e-9 * L]])
    eps = 2.3e-16
    nbad = 0
    if spec["dense"]:
        node = max(float(np.max(np.abs(y[k].astype(np.longdouble) - prob.ystar(float(t[k]) / ts)))) for k in range(n))
        hmax = float(np.max(np.abs(np.diff(t)))) / ts if n > 1 else 0.0
        dyb = node + hmax ** 4 * prob.d4ystar_max() / 384.0 + 64 * eps * (1 + float(np.max(np.abs(y))))
        acc_bound = 8 * dyb * (1 + prob.lipschitz() * hmax) + 1e-12
        if spec.get("rich"):
            # pieces are the (very short) sub-steps of the finest level: what separates them from the solution is the base method's error on those
            # sub-steps (10..200 tolerance units on the unchanged tree), not h^4 of the whole step
            # (how far those pieces are from the solution is the base method's own error on the sub-steps - KF09, C06's subject; what a look-up
            #  can be held to is that the time is answered by a piece that CONTAINS it: a recorded step without pieces is answered by extrapolating
            #  a neighbour)
            rec.bump("richardson_many_level_systems")
            qs = np.concatenate([qs, t.astype(float), 0.5 * (t[:-1] + t[1:]).astype(float)])
            sol_ = system.sol
            for q_ in qs:
                if not (lo <= float(q_) <= hi):
                    continue
                p_ = sol_.y_interpolants[int(sol_.find_interval(np.asarray(float(q_))))]
                a_, b_ = sorted([float(p_.t0), float(p_.t1)])
                rec.bump("richardson_lookups_checked_for_containment")
                if not (a_ - 16 * eps * max(1.0, abs(a_)) <= float(q_) <= b_ + 16 * eps * max(1.0, abs(b_))):
                    rec.violate("time_lookup_dense", "time_inside_a_recorded_step_answered_by_a_piece_that_does_not_contain_it", feats, q=float(q_), piece=[a_, b_])
                    break
    for q in qs:
        q = float(q)
        try:
            got = system[q]
        except Exception as e:
            rec.violate("time_lookup_raised", type(e).__name__, feats, q=q, inside=bool(lo <= q <= hi))
            continue
        if spec["dense"]:
            rec.bump("time_lookups_dense")
            if lo <= q <= hi:
                v = system.sol(q)
                if not np.array_equal(np.asarray(got.y), np.asarray(v)):
                    rec.violate("time_lookup_dense", "time_lookup_differs_from_dense_solution", feats, q=q)
                # ... and that is the solution there, to what a cubic Hermite piece between accurate nodes allows
                e_ = float(np.max(np.abs(np.asarray(got.y, dtype=np.longdouble) - prob.ystar(q / ts))))
                rec.worst("dense_lookup_error_over_bound", e_ / acc_bound)
                if e_ > acc_bound and nbad == 0 and not spec.get("rich"):
                    nbad += 1
                    rec.violate("time_lookup_dense", "time_lookup_with_dense_output_is_not_the_solution_at_that_time", feats, q=q, err=e_, bound=acc_bound)
        else:
            rec.bump("time_lookups_nodense")
            dmin = float(np.min(np.abs(t - q)))
            dg = abs(float(got.t) - q)
            k = np.nonzero(t == float(got.t))[0]
            if len(k) == 0 or not np.array_equal(np.asarray(got.y), y[int(k[0])]):
                rec.violate("time_lookup_nearest", "returned_sample_is_not_a_recorded_row", feats, q=q)
            elif dg > dmin * (1 + 64 * eps) + 4 * float(np.spacing(abs(q))):
                nbad += 1
                if nbad == 1:
                    rec.violate("time_lookup_nearest", "returned_sample_is_not_the_nearest_in_time", dict(feats, where="inside" if lo <= q <= hi else "outside"),
                                q=q, returned_t=float(got.t), nearest_distance=dmin, returned_distance=dg)
    # ---- array-valued time look-ups (dense output): element-wise equal to the scalar look-ups
    if spec["dense"]:
        qa = np.concatenate([rng.uniform(lo, hi, 12), t[:3].astype(float), t[-3:].astype(float), 0.5 * (t[:-1] + t[1:])[:3], 0.5 * (t[:-1] + t[1:])[-3:]])
        try:
            ga = system[qa]
            stack = np.stack([np.asarray(system[float(q)].y) for q in qa])
            rec.bump("time_lookups_dense", len(qa))
            rec.bump("array_lookups")
            if np.asarray(ga.y).shape != stack.shape or not np.array_equal(np.asarray(ga.y), stack):
                rec.violate("time_lookup_dense", "array_valued_lookup_differs_from_scalar_lookups", feats,
                            maxdiff=float(np.max(np.abs(np.asarray(ga.y) - stack))) if np.asarray(ga.y).shape == stack.shape else None)
        except Exception as e:
            rec.violate("time_lookup_raised", type(e).__name__, dict(feats, array=True), err=repr(e)[:200])
    # ---- whole-run slices (either direction) and partial slices
    for (a, b, name) in ((float(t[0]), float(t[-1]), "whole"), (None, None, "open"), (float(t[0]), None, "from_start"), (None, float(t[-1]), "to_end")):
        rec.bump("slices")
        try:
            sl = system[a:b]
            ts = np.asarray(sl.t)
            if len(ts) != n or not np.array_equal(ts, t) or not np.array_equal(np.asarray(sl.y), y):
                rec.violate("time_slice", "slice_spanning_the_whole_run_does_not_return_the_whole_run", dict(feats, slice=name), got=len(ts), want=n)
        except Exception as e:
            rec.violate("time_slice", "slice_raised", dict(feats, slice=name), err=repr(e)[:200])
    if n >= 6:
        i0, i1 = sorted(int(x) for x in rng.choice(np.arange(n), size=2, replace=False))
        rec.bump("slices")
        try:
            sl = system[float(t[i0]):float(t[i1])]
            ts = np.asarray(sl.t)
            if not np.array_equal(ts, t[i0:i1 + 1]):
                rec.violate("time_slice", "slice_between_two_recorded_times_returns_wrong_rows", feats, got=[float(x) for x in ts[:3]], want=[float(x) for x in t[i0:i0 + 3]], n_got=len(ts), n_want=i1 - i0 + 1)
        except Exception as e:
            rec.violate("time_slice", "slice_raised", dict(feats, slice="partial"), err=repr(e)[:200])
    rec.sample = {"spec": spec, "rows": n, "t_first": float(t[0]), "t_last": float(t[-1])}
    return rec.out()
