"""C05 - adaptive integration keeps the global error proportional to the tolerances; rejected steps shrink;
unattainable tolerances raise instead of recording inaccurate states."""
import numpy as np

from vf import util, sysrun
from vf.instrument import StepLog
from vf.problems import Manufactured, Scaled, LateBump, QuietBump, dtype_of, rng_for

LEVEL = "exploration"
NO_PROGRESS_IS_VIOLATION = True   # the statement promises returned states in both directions of time: a loop that cannot end refutes it
RULE = ("one case = (adaptive method or Richardson wrapper, problem class+seed, tolerance decade, direction, initial-dt class); the run's "
        "recorded states are compared with the exact solution in units of (atol+rtol|y|) (contractive problems: amplification ~1); the "
        "step() wrapper logs every attempt and consecutive attempts from the same state must strictly shrink after a controller "
        "rejection; non-trivial = >=5 recorded steps; distinct by (method, problem, tol decade, direction, dt class)")
ASSUMPTIONS = ["fast-decaying solutions under purely relative tolerances are judged step by step (local error in units of atol + rtol*max(|y_k|,|y_k+1|)), not globally",
               "'smooth' is relative to the step: steps more than twice as long as the width of the Gaussian feature they run into (bump problems) are not judged",
               "problems are contractive along the direction of integration (logarithmic norm <= 0), so the problem's own amplification is ~1",
               "tolerance unit per component: atol + rtol*max(|y_i|, 0.1*max_j|y_j|) (a component passing through zero is judged on the scale of the solution)"]
RULE += " Strata added in the fourth seeding round: Per-component absolute tolerances (arrays) with every component judged in its own unit."
FLOORS = {"quick": {"runs_checked": 45, "local_steps_checked": 1000, "rejected_attempts_forward": 30, "rejected_attempts_backward": 30, "blowup_runs": 6, "blowup_raised": 1, "closing_step_rejected": 8, "decaying_runs_judged_locally": 12, "runs_with_per_component_atol": 10},
          "thorough": {"runs_checked": 400, "local_steps_checked": 10000, "rejected_attempts_forward": 300, "rejected_attempts_backward": 300, "blowup_runs": 25, "blowup_raised": 5, "closing_step_rejected": 30, "decaying_runs_judged_locally": 12, "runs_with_per_component_atol": 40}}
K_TOL = 200.0
K_GLOB = 20.0
K_LOC = 50.0
CASE_TIMEOUT = 600


class LinExp:
    def __init__(self, dim, seed, direction, rate=1.0):
        rng = rng_for(501, dim, seed)
        Dg = np.diag(rng.uniform(0.2, 2.0, dim)) * rate
        S = rng.uniform(-2, 2, (dim, dim)) * min(rate, 3.0)
        self.A = -float(direction) * Dg + 0.5 * (S - S.T)
        self.y0v = rng.uniform(-1, 1, dim)
        self.dim = dim
        self.shape = (dim,)
        self.t0 = None

    def rhs(self, t, y, **kw):
        return self.A.astype(y.dtype) @ y

    def jac(self, t, y, **kw):
        return self.A.astype(y.dtype)

    def ystar(self, t, dtype=np.longdouble):
        from scipy.linalg import expm
        return (expm(self.A * (float(t) - self.t0)) @ self.y0v).astype(dtype)


class LinTwoScales(LinExp):
    """Two uncoupled linear blocks whose solutions differ in magnitude by `small` (1e-5): with per-component absolute tolerances proportional to the
    block's magnitude every component has its own tolerance unit."""

    def __init__(self, seed, direction, small):
        b1, b2 = LinExp(2, seed, direction), LinExp(2, seed + 17, direction)
        rng = rng_for(504, seed)
        a_, w_ = float(rng.uniform(0.1, 0.4)), float(rng.uniform(5.0, 9.0))
        self.A = np.zeros((4, 4))
        # the SMALL block is the fast one (a lightly damped rotation at 5-9 rad per unit time): it is the one that has to limit the step
        self.A[:2, :2], self.A[2:, 2:] = b1.A, np.array([[-float(direction) * a_, w_], [-w_, -float(direction) * a_]])
        self.y0v = np.concatenate([b1.y0v, small * b2.y0v])
        self.dim, self.shape, self.t0 = 4, (4,), None
        self.blocks = [slice(0, 2), slice(2, 4)]


def _floor_mag(prob, v):
    """|v| with a floor of 10% of the largest component (of the same block): a component passing through zero is judged on the solution's scale."""
    v = np.abs(np.asarray(v, dtype=np.longdouble))
    out = np.empty_like(v)
    for sl in getattr(prob, "blocks", [slice(None)]):
        out[sl] = np.maximum(v[sl], 0.1 * float(np.max(v[sl])))
    return out


def _local_flow(prob, kind, ta, ya, tb):
    if kind in ("lin", "lin2s"):
        from scipy.linalg import expm
        return expm(prob.A * (tb - ta)) @ ya
    from scipy.integrate import solve_ivp
    sol = solve_ivp(lambda t, y: prob.rhs(t, np.asarray(y, dtype=np.float64)), (ta, tb), np.asarray(ya, dtype=np.float64),
                    method="DOP853", rtol=1e-12, atol=1e-15)
    return sol.y[:, -1]


def min_rtol(info_order, explicit):
    # cap so that a run needs <= ~2e4 steps
    if info_order <= 2:
        return 1e-6
    if info_order <= 4:
        return 1e-9
    return 1e-11


def gen_cases(tier, seed):
    M = util.methods()
    rng = rng_for(502, seed)
    adaptive = [n for n, i in M.items() if i["adaptive"]]
    cases = []
    reps = 4 if tier == "quick" else 14
    for name in adaptive:
        info = M[name]
        for r in range(reps):
            lo = np.log10(min_rtol(info["order"], info["explicit"]))
            rt = 10 ** float(rng.uniform(lo, -3))
            if name == "RadauIIA19" and r > (1 if tier == "quick" else 3):
                continue
            d = 1 if r % 2 == 0 else -1
            span = float(rng.uniform(1.5, 6.0))
            t0 = float(rng.uniform(-4, 4))
            frac = float(rng.choice([1e-4, 1e-2, 0.3, 3.0, 20.0]))
            cases.append(dict(kind="tol", method=name, rich=0, problem=str(rng.choice(["ms", "lin"])), dim=int(rng.integers(2, 5)),
                              rtol=rt, atol=rt * 10 ** float(rng.uniform(-3, 0)), t0=t0, tf=t0 + d * span, dt=frac * span * float(rng.choice([-1, 1])), dtfrac=frac,
                              pseed=int(rng.integers(1 << 30)), cost=(3 if info["explicit"] else 25) * (1 + (-np.log10(rt)) / 4)))
    # core battery (every seed): an initial step far beyond the span makes the first attempts wildly inaccurate; whatever they leave behind in the
    # controller (error scale, step memory) must not loosen the test of the attempt that is finally accepted - high-order pairs are the sensitive ones
    for name in [n for n in adaptive if M[n]["explicit"] and M[n]["order"] >= 5]:
        for d in (1, -1):
            for pb, rate in (("lin", 1.0), ("ms", 1.0), ("lin", 10.0)):
                rt = 10 ** float(rng.uniform(-8, -3))
                span = float(rng.uniform(1.0, 2.0))
                t0 = float(rng.uniform(-2, 2))
                cases.append(dict(kind="tol", method=name, rich=0, problem=pb, rate=rate, dim=3, rtol=rt, atol=rt * 0.1, t0=t0, tf=t0 + d * span,
                                  dt=float(rng.choice([4.0, 20.0])) * span, dtfrac=20.0, pseed=int(rng.integers(1 << 30)), cost=4))
    # purely relative tolerances (atol far below rtol*|y|) on solutions whose magnitude decays by a large factor per step: the error scale of a step
    # must be the scale of THAT step, not a memory of earlier, larger states
    for name in [n for n in adaptive if M[n]["explicit"]]:
        for d in (1, -1):
            rt = float(rng.choice([1e-3, 1e-4, 1e-5]))
            span = float(rng.uniform(2.0, 4.0))
            t0 = float(rng.uniform(-2, 2))
            cases.append(dict(kind="tol", method=name, rich=0, problem="lin", rate=float(rng.uniform(3.0, 6.0)), dim=2, rtol=rt, atol=1e-13, t0=t0, tf=t0 + d * span,
                              dt=0.05 * span, dtfrac=0.05, decaying=True, pseed=int(rng.integers(1 << 30)), cost=4))
    # seed-independent: the pairs of order >= 8 at the tight end of the tolerance range, both directions (a defect of size 1e-7 in such a method is
    # invisible at looser tolerances, and whether a random draw reaches 1e-10 must not depend on the seed)
    for name in [n for n in adaptive if M[n]["explicit"] and M[n]["order"] >= 8]:
        for d in (1, -1):
            for rt in (1e-10, 1e-11):
                cases.append(dict(kind="tol", method=name, rich=0, problem="lin", dim=3, rtol=rt, atol=rt * 0.1, t0=0.5 * d, tf=0.5 * d + d * 3.0, dt=0.1, dtfrac=0.03,
                                  pseed=4242 + int(-np.log10(rt)) + (0 if d > 0 else 100), cost=6))
    # per-component absolute tolerances (an array, as scipy's solve_ivp accepts): two uncoupled blocks of magnitude 1 and 1e-5, atol_i proportional to
    # the block's magnitude - every component is judged in ITS OWN unit atol_i + rtol*|y_i| (explicit pairs; the implicit schemes do not take arrays)
    rnga = rng_for(503, seed)
    for name in [n for n in adaptive if M[n]["explicit"]]:
        for r in range(2 if tier == "quick" else 8):
            d = 1 if r % 2 == 0 else -1
            span = float(rnga.uniform(1.5, 4.0))
            t0 = float(rnga.uniform(-3, 3))
            small = float(rnga.choice([1e-5, 1e-4, 1e-6]))
            a_ = 10 ** float(rnga.uniform(-8, -5))
            cases.append(dict(kind="tol", method=name, rich=0, problem="lin2s", small=small, dim=4, rtol=a_ * 0.1, atol=[a_, a_, a_ * small, a_ * small], t0=t0, tf=t0 + d * span,
                              dt=0.05 * span, dtfrac=0.05, pseed=int(rnga.integers(1 << 30)), cost=4))
    # solution magnitudes far from 1 with atol and rtol far apart (atol vs rtol*|y| must be told apart), and problems that are quiet
    # until a sharp feature just before the end (the closing step of the call is rejected and retried)
    for name in adaptive:
        info = M[name]
        if name == "RadauIIA19" and tier == "quick":
            continue
        for r in range(2 if tier == "quick" else 10):
            d = 1 if r % 2 == 0 else -1
            span = float(rng.uniform(1.5, 4.0))
            t0 = float(rng.uniform(-3, 3))
            S = float(rng.choice([1e-4, 1e3]))
            fac = 10 ** float(rng.uniform(-1, 1))
            if S > 1:      # |y| ~ 1e3: tolerance dominated by atol (a swap of atol and rtol is ~1e3 too loose)
                rt_, at_ = 1e-11 * fac, 1e-5 * fac
            else:          # |y| ~ 1e-4: tolerance dominated by rtol*|y| (a swap is ~1e4 too loose)
                rt_, at_ = 1e-5 * fac, 1e-13 * fac
            cases.append(dict(kind="tol", method=name, rich=0, problem="ms_scaled", scale=S, dim=2, rtol=rt_, atol=at_, t0=t0, tf=t0 + d * span,
                              dt=0.05 * span, dtfrac=0.05, pseed=int(rng.integers(1 << 30)), cost=(4 if info["explicit"] else 30)))
            if info["order"] <= 5:
                for dtf in (0.01, 5.0):
                    cases.append(dict(kind="tol", method=name, rich=0, problem="quiet_bump", dim=2, rtol=10 ** float(rng.uniform(-7, -4)), atol=10 ** float(rng.uniform(-8, -5)),
                                      t0=t0, tf=t0 + d * span, dt=dtf * span, dtfrac=dtf, pseed=int(rng.integers(1 << 30)), cost=(4 if info["explicit"] else 30)))
            if info["order"] <= 5:   # (estimators of the order >= 8 pairs are blind to a feature narrower than their steps: not "smooth" at their scale)
              cases.append(dict(kind="tol", method=name, rich=0, problem="ms_bump", dim=2, rtol=10 ** float(rng.uniform(-7, -4)), atol=1e-9, t0=t0, tf=t0 + d * span,
                              dt=0.05 * span, dtfrac=0.05, pseed=int(rng.integers(1 << 30)), cost=(4 if info["explicit"] else 30)))
    # the closing (clipped) step of a call is rejected and retried: constructed deterministically from a reference run
    for name in [n for n in adaptive if M[n]["order"] <= 8 and n != "RadauIIA19"]:
        for r in range(2 if tier == "quick" else 8):
            d = 1 if r % 2 == 0 else -1
            span = float(rng.uniform(1.0, 3.0))
            t0 = float(rng.uniform(-3, 3))
            cases.append(dict(kind="closing", method=name, rich=0, problem="quiet_bump", dim=2, rtol=10 ** float(rng.uniform(-7, -4)), atol=10 ** float(rng.uniform(-8, -5)),
                              t0=t0, tf=t0 + d * span, dt=0.01 * span, dtfrac=0.01, pseed=int(rng.integers(1 << 30)), cost=(8 if M[name]["explicit"] else 60)))
    # Richardson wrappers
    rbases = ["RK4Solver", "MidpointSolver", "EulerSolver", "RK45CKSolver"] + (["HeunsSolver", "RK5Solver", "RalstonsSolver"] if tier == "thorough" else [])
    for name in rbases:
        for n in ([3, 4] if tier == "quick" else [2, 3, 4, 5]):
            for r in range(2 if tier == "quick" else 6):
                d = 1 if r % 2 == 0 else -1
                rt = 10 ** float(rng.uniform(-7, -3))
                span = float(rng.uniform(1.0, 3.0))
                t0 = float(rng.uniform(-4, 4))
                frac = float(rng.choice([1e-2, 0.3, 3.0]))
                cases.append(dict(kind="tol", method=name, rich=n, problem="ms", dim=2, rtol=rt, atol=rt * 0.1, t0=t0, tf=t0 + d * span,
                                  dt=frac * span, dtfrac=frac, pseed=int(rng.integers(1 << 30)), cost=10 * n))
    # Richardson wrappers of bases flagged symplectic take their own step-size branch (doubling/halving only): both directions
    for name in ["ImplicitMidpoint"]:
        for r in range(2 if tier == "quick" else 6):
            d = 1 if r % 2 == 0 else -1
            rt = 10 ** float(rng.uniform(-6, -4))
            span = float(rng.uniform(0.6, 1.2))
            t0 = float(rng.uniform(-4, 4))
            cases.append(dict(kind="tol", method=name, rich=3, problem="ms", dim=2, rtol=rt, atol=rt * 0.1, t0=t0, tf=t0 + d * span,
                              dt=0.05 * span, dtfrac=0.05, pseed=int(rng.integers(1 << 30)), cost=120))
    # tolerances that cannot be met
    # (order >= 10 pairs are left out: next to a singularity their estimator is outside its asymptotic regime - a property of the pair, not of the code)
    for name in (["RK45CKSolver", "DOPRI45", "RK8713MSolver", "RadauIIA5", "HeunEulerSolver", "LobattoIIIC4"] if tier == "quick" else [n for n in adaptive if M[n]["order"] < 10]):
        for r in range(1 if tier == "quick" else 3):
            for sub in ["blowup", "blowup_back"]:
                cases.append(dict(kind="blowup", sub=sub, method=name, rich=0, rtol=10 ** float(rng.uniform(-9, -4)), atol=1e-10,
                                  dt=float(rng.choice([1e-3, 0.1, 0.7] if M[name]["order"] < 8 else [1e-3, 0.05, 0.1])), pseed=int(rng.integers(1 << 30)), cost=15))
    return cases


def _attempt_discipline(rec, slog, feats, direction):
    """consecutive attempts from the same time: strictly smaller |h| after a controller rejection."""
    atts = slog.attempts
    nrej = 0
    for a, b in zip(atts[:-1], atts[1:]):
        if "boundary" in a or "boundary" in b:
            continue   # an accepted step lies between the two attempts
        if a["t"] == b["t"] and a["raised"] is None:
            nrej += 1
            newton_fail = a.get("newton_ok") is False
            if newton_fail:
                if abs(b["h"]) > abs(a["h"]) * (1 + 1e-12):
                    rec.violate("retry_not_smaller", "retry_after_newton_failure_with_larger_step", feats, attempts=[a, b])
            else:
                if not abs(b["h"]) < abs(a["h"]):
                    rec.violate("retry_not_smaller", "rejected_step_retried_with_not_smaller_magnitude", feats, attempts=[a, b])
    rec.bump("rejected_attempts_forward" if direction > 0 else "rejected_attempts_backward", nrej)
    return nrej


def run_case(spec):
    M = util.methods()
    info = M[spec["method"]]
    cls = info["cls"] if not spec["rich"] else util.richardson(info["cls"], spec["rich"])
    if spec["kind"] == "blowup":
        return _blowup(spec, info, cls)
    t0, tf = spec["t0"], spec["tf"]
    d = 1 if tf > t0 else -1
    dt = np.dtype("float64")
    if spec["problem"] == "ms":
        prob = Manufactured(spec["dim"], spec["pseed"], direction=d)
    elif spec["problem"] == "ms_scaled":
        prob = Scaled(Manufactured(spec["dim"], spec["pseed"], direction=d), spec["scale"])
    elif spec["problem"] == "quiet_bump":
        prob = QuietBump(spec["dim"], spec["pseed"], t0, tf)
    elif spec["problem"] == "ms_bump":
        prob = LateBump(Manufactured(spec["dim"], spec["pseed"], direction=d), t0, tf)
    elif spec["problem"] == "lin2s":
        prob = LinTwoScales(spec["pseed"], d, spec["small"])
        prob.t0 = t0
        spec = dict(spec, atol=np.asarray(spec["atol"], dtype=np.float64))
    else:
        prob = LinExp(spec["dim"], spec["pseed"], d, rate=spec.get("rate", 1.0))
        prob.t0 = t0
    y0 = prob.ystar(t0).astype(dt)
    label = spec["method"] + ("/R%d" % spec["rich"] if spec["rich"] else "")
    decade = int(np.floor(np.log10(spec["rtol"])))
    rec = util.Rec(sig="%s|%s|%d|%d|%s|%d" % (label, spec["problem"], decade, d, spec["dtfrac"], spec["pseed"] % 7))
    feats = {"method": spec["method"], "richardson": spec["rich"], "family": info["family"], "direction": d, "problem": spec["problem"],
             "dt_class": "gt_span" if abs(spec["dt"]) > abs(tf - t0) else "le_span"}
    if spec["kind"] == "closing":
        # reference run over the whole span: find a step (not the first) whose first attempt h_a was rejected and that was accepted
        # at h_b < h_a; a call targeting t_k + (h_a+h_b)/2 meets exactly that state with a proposed step > remaining > acceptable
        def _mk():
            r_ = sysrun.make_system(prob.rhs, y0.copy(), t0, tf, spec["dt"], cls, rtol=spec["rtol"], atol=spec["atol"])
            if hasattr(prob, "jac") and not info["explicit"]:
                r_.equ_rhs.hook_jacobian_call(prob.jac)
            return r_
        tgt = sysrun.closing_rejection_target(_mk)
        if tgt is None:
            rec.skipped = "closing: reference run has no rejected step to target"
            return rec.out()
        tf = tgt
        feats["problem"] = "quiet_bump_closing"
    system = sysrun.make_system(prob.rhs, y0, t0, tf, spec["dt"], cls, rtol=spec["rtol"], atol=spec["atol"])
    if hasattr(prob, "jac") and not info["explicit"]:
        system.equ_rhs.hook_jacobian_call(prob.jac)
    slog = StepLog(system.integrator)
    seg = sysrun.call_integrate(system, max_steps=60000, callback=lambda s_: slog.attempts.append({"boundary": 1}))
    nrej = _attempt_discipline(rec, slog, feats, d)
    t = np.asarray(system.t)
    y = np.asarray(system.y)
    # was a closing (clipped to the remaining span) step rejected and retried?
    cur = []
    for a in slog.attempts + [{"boundary": 1}]:
        if "boundary" in a:
            if len(cur) > 1 and abs(cur[0]["h"] - (tf - cur[0]["t"])) <= 1e-9 * max(1.0, abs(tf)) and abs(cur[-1]["h"]) < abs(cur[0]["h"]):
                rec.bump("closing_step_rejected")
            cur = []
        else:
            cur.append(a)
    # every recorded row is (previous time + the step that was finally ACCEPTED for it, previous state + its increment): a state advanced by a
    # shortened retry must not be stamped with the time the first, rejected attempt aimed at
    if not spec["rich"]:
        groups, cur = [], []
        for a in slog.attempts:
            if "boundary" in a:
                groups.append(cur)
                cur = []
            else:
                cur.append(a)
        for k, g in enumerate(groups):
            if not g or k + 1 >= len(t):
                continue
            rec.bump("recorded_steps_matched_with_accepted_attempt")
            dt_rec = float(np.longdouble(t[k + 1]) - np.longdouble(t[k]))
            if abs(dt_rec - g[-1]["h"]) > 8 * 2.3e-16 * max(1.0, abs(float(t[k])), abs(float(t[k + 1]))) and g[-1]["t"] == float(t[k]):
                rec.violate("time_state_pairing", "recorded_time_increment_differs_from_the_accepted_step", feats, row=k + 1, recorded=dt_rec, accepted=g[-1]["h"], attempts=[a_["h"] for a_ in g][:6])
                break
    raised = seg["raised"]
    cause = getattr(seg["exc"], "__cause__", None) if raised else None
    if raised:
        rec.bump("raised_" + type(cause or seg["exc"]).__name__)
        if isinstance(cause, sysrun.StepBudgetExceeded):
            rec.bump("budget_exceeded")
        else:
            # well-conditioned smooth problem, moderate tolerance: the library is expected to integrate it
            rec.violate("failed_on_benign_problem", type(cause or seg["exc"]).__name__, feats, err=repr(cause or seg["exc"])[:300], rows=len(t), rejections=nrej)
    # ---- accuracy of every recorded state (also of the prefix after a raise)
    # (i) global: error in tolerance units, normalised by the number of steps inside the problem's memory window
    #     (error-per-step control: local errors accumulate over ~1/damping time units even on contractive problems)
    tl = t.astype(np.longdouble)
    # "smooth" is relative to the step: a recorded step that runs into a Gaussian feature more than twice narrower than itself is outside the
    # premise (every embedded estimate is built from derivatives the stage points cannot see there); such steps, and the states after the first
    # of them, are counted but not judged.  Steps that resolve the feature are judged as usual.
    first_unresolved = len(t)
    unresolved = set()
    if hasattr(prob, "tc") and hasattr(prob, "w"):
        tcs, ws = np.atleast_1d(np.asarray(prob.tc, dtype=float)), np.atleast_1d(np.asarray(prob.w, dtype=float))
        for k in range(len(t) - 1):
            a_, b_ = sorted([float(t[k]), float(t[k + 1])])
            for tc_, w_ in zip(tcs, ws):
                if b_ >= tc_ - 5 * w_ and a_ <= tc_ + 5 * w_ and (b_ - a_) > 2.0 * w_:
                    unresolved.add(k)
        if unresolved:
            first_unresolved = min(unresolved) + 1
            rec.bump("steps_wider_than_the_feature_not_judged", len(unresolved))
    mu = float(np.min(np.abs(np.diag(prob.A + prob.A.T)))) / 2.0
    T_mem = 1.0 / max(mu, 1e-3)
    worst = 0.0
    worst_norm = 0.0
    wk = 0
    for k in range(min(len(t), first_unresolved)):
        ys = prob.ystar(float(t[k]))
        mag = _floor_mag(prob, ys)    # a component passing through zero is judged on the solution's scale
        r = float(np.max(np.abs(y[k].astype(np.longdouble) - ys) / (spec["atol"] + spec["rtol"] * mag)))
        nmem = int(np.sum(np.abs(tl[:k + 1] - tl[k]) <= T_mem)) if k else 1
        worst = max(worst, r)
        if r / max(1, nmem) > worst_norm:
            worst_norm, wk = r / max(1, nmem), k
    if spec["kind"] == "closing" and not raised:
        if abs(float(t[-1]) - tf) > 64 * 2.3e-16 * max(1.0, abs(tf)):
            rec.violate("closing_step", "call_did_not_end_at_its_target", feats, t_last=float(t[-1]), target=tf)
    rec.bump("runs_checked")
    if spec["problem"] == "lin2s":
        rec.bump("runs_with_per_component_atol")
    rec.bump("states_checked", len(t))
    rec.nontrivial = len(t) >= 6
    fam = "rich" if spec["rich"] else info["family"]
    rec.worst("global_tol_ratio_" + fam, worst)
    rec.worst("global_tol_ratio_per_memory_step_" + fam, worst_norm)
    if spec.get("decaying"):
        # measured against the DECAYED |y| a contractive problem is not "amplification ~1" (absolute errors decay with the slowest mode while the
        # tolerance unit shrinks with the solution): these runs are judged by the local clause below, in units of the step's own scale
        rec.bump("decaying_runs_judged_locally")
    elif worst_norm > K_GLOB:
        rec.violate("global_error", "recorded_state_error_exceeds_tolerance_bound", feats, ratio_per_memory_step=worst_norm, ratio=worst, at=wk, t=float(t[wk]),
                    rows=len(t), rtol=spec["rtol"], atol=spec["atol"])
    # (ii) local: error of sampled accepted steps against the exact local flow from the recorded previous state
    wl, wlk = 0.0, 0
    if spec["rtol"] >= 1e-9 and len(t) > 1:
        idx = sorted(set(list(range(min(12, len(t) - 1))) + [int(i) for i in np.linspace(0, len(t) - 2, 60)]))
        if spec.get("decaying"):
            idx = list(range(len(t) - 1))
        for k in idx:
            if k in unresolved:
                continue
            ref = _local_flow(prob, spec["problem"], float(t[k]), y[k], float(t[k + 1]))
            ymag = np.maximum(np.abs(y[k]), np.abs(y[k + 1]))
            scale = spec["atol"] + spec["rtol"] * np.asarray(_floor_mag(prob, ymag), dtype=np.float64)
            r = float(np.max(np.abs(y[k + 1] - ref) / scale))
            rec.bump("local_steps_checked")
            if r > wl:
                wl, wlk = r, k
        rec.worst("local_tol_ratio_" + fam, wl)
        if wl > K_LOC:
            rec.violate("local_error", "accepted_step_local_error_exceeds_tolerance_bound", feats, ratio=wl, at=wlk, t=float(t[wlk]), h=float(t[wlk + 1] - t[wlk]),
                        rtol=spec["rtol"], atol=spec["atol"])
    rec.sample = {"spec": {k: spec[k] for k in ("method", "rich", "problem", "rtol", "atol", "t0", "tf", "dt")}, "rows": len(t), "rejected_attempts": nrej,
                  "worst_global_error_in_tolerance_units": worst, "worst_local_error_in_tolerance_units": wl}
    return rec.out()


def _blowup(spec, info, cls):
    """y' = y^2: finite-time blow-up at t* inside the span; z = 1/y = z0 -+ (t - t0) exactly."""
    back = spec["sub"] == "blowup_back"
    d = -1 if back else 1
    rec = util.Rec(sig="blowup|%s|%s|%d|%s" % (spec["method"], spec["sub"], int(np.log10(spec["rtol"])), spec["dt"]))
    feats = {"method": spec["method"], "family": info["family"], "direction": d, "problem": spec["sub"]}

    def rhs(t, y, **kw):
        return d * y * y
    t0, tf = 0.0, d * 2.0
    y0 = np.array([1.0])
    system = sysrun.make_system(rhs, y0, t0, tf, spec["dt"], cls, rtol=spec["rtol"], atol=spec["atol"])
    slog = StepLog(system.integrator)
    seg = sysrun.call_integrate(system, max_steps=60000, callback=lambda s_: slog.attempts.append({"boundary": 1}))
    _attempt_discipline(rec, slog, feats, d)
    rec.bump("blowup_runs")
    t = np.asarray(system.t, dtype=np.longdouble)
    y = np.asarray(system.y, dtype=np.longdouble)[:, 0]
    rec.nontrivial = len(t) >= 5
    cause = getattr(seg["exc"], "__cause__", None) if seg["raised"] else None
    if seg["raised"]:
        rec.bump("blowup_raised")
        rec.bump("blowup_raised_" + type(cause or seg["exc"]).__name__)
    # every recorded state must be accurate in z = 1/y (no amplification in z), and none may lie beyond the pole
    s = np.abs(t - t0)
    if not np.all(np.isfinite(y)):
        rec.violate("inaccurate_state_recorded", "non_finite_state_recorded", feats, rows=len(t), raised=str(seg["raised"]))
    else:
        # in z = 1/y the problem has no amplification: z(t) = 1 - |t - t0| exactly, also for states recorded a few
        # tolerance units "beyond" the pole (a finite numerical y there is fine as long as z is accurate)
        z = 1.0 / y
        zerr = np.abs(z - (1.0 - s))
        unit = K_TOL * (spec["rtol"] + spec["atol"]) * (np.arange(len(t)) + 1)
        r = zerr / unit
        rec.worst("blowup_z_error_over_unit", float(np.max(r)))
        if float(np.max(r)) > 1:
            k = int(np.argmax(r))
            rec.violate("inaccurate_state_recorded", "state_inaccurate_near_blow_up", feats, t=float(t[k]), y=float(y[k]), zerr=float(zerr[k]), unit=float(unit[k]), raised=str(seg["raised"]))
    if not seg["raised"]:
        rec.violate("unattainable_tolerance_not_reported", "run_completed_across_a_singularity", feats, last_t=float(t[-1]), rows=len(t))
    rec.sample = {"spec": spec, "rows": len(t), "last_t": float(t[-1]), "raised": str(seg["raised"]), "cause": repr(cause)[:120]}
    return rec.out()
