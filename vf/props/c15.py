"""C15 - nonlinear system solvers only claim success at an actual solution."""
import numpy as np

from vf import util
from vf.problems import rng_for, dtype_of

LEVEL = "exploration"
RULE = ("one case = (solver in {nonlinear_roots, hybrj, newtontrustregion}, dispatch path float64->MINPACK / longdouble->built-in dogleg, system family "
        "(diagonally dominant smooth, singular Jacobian at the root, rootless, flat asymptote exp(x)+c, badly scaled, regular with zero-diagonal Jacobian), n=1..12 and array shape, with/without "
        "user Jacobian, guess quality, tolerance); oracle: success => ||F(x)|| <= 20*tol*(n+||x||)*max(1,||J(x)||) and result shape = guess shape; otherwise "
        "failure must be reported (flag False or LinAlgError/ValueError); plus in situ: every accepted implicit stage solve of real integrations; "
        "non-trivial = solver returned or raised an admissible error; distinct by (solver, path, family, n, jac, guess, tol, seed)")
ASSUMPTIONS = ["the Jacobian norm converts MINPACK's step-based xtol into a residual bound; main families keep ||J|| in [0.1,10]",
               "failure on a solvable system is counted (rate in evidence) but is not a violation of this property"]
RULE += " Strata added in the fourth seeding round: Restricted-domain systems (log, sqrt) with guesses from which the iteration leaves the domain; a non-finite residual at a claimed root is a violation."
FLOORS = {"quick": {"solver_calls": 700, "success_minpack": 100, "failure_minpack": 30, "success_dogleg": 60, "failure_dogleg": 20, "rootless_cases": 120, "insitu_stage_solves": 200, "zero_diagonal_jacobian_cases_dogleg": 25, "small_iteration_budget_failures_ntr": 10, "small_iteration_budget_cases_dogleg": 60},
          "thorough": {"solver_calls": 7000, "success_minpack": 1000, "failure_minpack": 300, "success_dogleg": 600, "failure_dogleg": 200, "rootless_cases": 1200, "insitu_stage_solves": 2000, "zero_diagonal_jacobian_cases_dogleg": 250, "small_iteration_budget_failures_ntr": 100, "small_iteration_budget_cases_dogleg": 600}}
FAMILIES = ["dd", "singular2", "singular3", "rootless_quadratic", "flat", "scaled", "dd", "hollow"]
SHAPES = {1: [(), (1,)], 2: [(2,)], 3: [(3,)], 4: [(4,), (2, 2)], 6: [(6,), (2, 3)], 8: [(8,)], 12: [(12,), (3, 4)]}
K = 20.0


class System:
    def __init__(self, fam, n, shape, seed, dtype):
        rng = rng_for(1501, seed)
        self.fam, self.n, self.shape, self.dt = fam, n, tuple(shape), dtype
        A = rng.uniform(-1, 1, (n, n))
        A = A + np.diag(np.sign(np.diag(A)) * (np.sum(np.abs(A), axis=1) + 0.5))
        self.A = (A / np.max(np.abs(A)) * 3.0).astype(dtype)
        self.xs = rng.uniform(-2, 2, n).astype(dtype)
        self.c = dtype.type(10 ** rng.uniform(-4, 0))
        self.S = (10 ** rng.uniform(-3, 3, n)).astype(dtype)
        self.b = (self.A @ self.xs + dtype.type(0.3) * np.sin(self.xs)).astype(dtype)
        if fam == "hollow" and n < 2:
            fam = self.fam = "dd"
        if fam == "hollow":
            # regular, well-conditioned system whose Jacobian has an identically ZERO diagonal (cyclic coupling): H x + 0.1 sin(roll(x)) = b
            H = rng.uniform(0.3, 1.0, (n, n)) * rng.choice([-1, 1], (n, n)) * 0.15
            for i in range(n):
                H[i, i] = 0.0
                H[i, (i + 1) % n] = float(rng.choice([-1, 1])) * float(rng.uniform(1.5, 3.0))
            self.A = H.astype(dtype)
            self.b = (self.A @ self.xs + dtype.type(0.1) * np.sin(np.roll(self.xs, -1))).astype(dtype)
        if fam in ("logdom", "sqrtdom"):
            # restricted domain: F is NaN outside x > 0 (x >= 0); the root xs is inside the domain, far guesses make the iteration leave it
            self.xs = np.abs(self.xs) + dtype.type(0.2)
        self.has_root = fam in ("dd", "singular2", "singular3", "scaled", "hollow", "logdom", "sqrtdom")
        self.calls = 0

    def F(self, x, *a, **k):
        self.calls += 1
        xf = np.asarray(x).reshape(-1)
        f = self.fam
        if f == "dd":
            out = self.A @ xf + xf.dtype.type(0.3) * np.sin(xf) - self.b
        elif f == "hollow":
            out = self.A @ xf + xf.dtype.type(0.1) * np.sin(np.roll(xf, -1)) - self.b
        elif f == "scaled":
            out = self.S * (self.A @ xf + xf.dtype.type(0.3) * np.sin(xf) - self.b)
        elif f == "singular2":
            out = (xf - self.xs) ** 2 * np.sign(xf - self.xs + (xf == self.xs))
        elif f == "singular3":
            out = (xf - self.xs) ** 3
        elif f == "rootless_quadratic":
            out = (xf - self.xs) ** 2 + self.c
        elif f == "flat":
            out = np.exp(xf) + self.c
        elif f == "logdom":
            out = np.log(xf) - np.log(self.xs)
        elif f == "sqrtdom":
            out = np.sqrt(xf) - np.sqrt(self.xs) + xf.dtype.type(0.1) * (np.roll(xf, 1) - np.roll(self.xs, 1))
        return out.reshape(np.shape(x))

    def J(self, x, *a, **k):
        xf = np.asarray(x).reshape(-1)
        f = self.fam
        if f == "dd":
            J = self.A + np.diag(xf.dtype.type(0.3) * np.cos(xf))
        elif f == "hollow":
            n_ = len(xf)
            J = np.array(self.A, copy=True)
            for i in range(n_):
                J[i, (i + 1) % n_] += xf.dtype.type(0.1) * np.cos(xf[(i + 1) % n_])
        elif f == "scaled":
            J = self.S[:, None] * (self.A + np.diag(xf.dtype.type(0.3) * np.cos(xf)))
        elif f == "singular2":
            J = np.diag(2 * np.abs(xf - self.xs))
        elif f == "singular3":
            J = np.diag(3 * (xf - self.xs) ** 2)
        elif f == "rootless_quadratic":
            J = np.diag(2 * (xf - self.xs))
        elif f == "flat":
            J = np.diag(np.exp(xf))
        elif f == "logdom":
            J = np.diag(1.0 / xf)
        elif f == "sqrtdom":
            J = np.diag(0.5 / np.sqrt(xf)) + xf.dtype.type(0.1) * np.roll(np.eye(len(xf), dtype=xf.dtype), -1, axis=1) * (1.0 if len(xf) > 1 else 0.0)
            if len(xf) == 1:
                J = np.diag(0.5 / np.sqrt(xf)) + xf.dtype.type(0.1)
        return J


def gen_cases(tier, seed):
    rng = rng_for(1502, seed)
    cases = []
    N = 900 if tier == "quick" else 9000
    for i in range(N):
        n = int(rng.choice([1, 1, 2, 3, 4, 6, 8, 12]))
        shape = SHAPES[n][int(rng.integers(len(SHAPES[n])))]
        solver = str(rng.choice(["nonlinear_roots", "nonlinear_roots", "hybrj", "newtontrustregion"]))
        dtype = str(rng.choice(["float64", "longdouble"]))
        cases.append(dict(kind="solve", solver=solver, dtype=dtype, fam=FAMILIES[i % len(FAMILIES)], n=n, shape=list(shape), jac=bool(rng.random() < 0.6) or solver == "hybrj",
                          guess=str(rng.choice(["good", "bad", "far", "huge"])), tol=str(rng.choice(["none", "1e-10", "1e-6"])), pseed=int(rng.integers(1 << 30)),
                          maxiter=int(rng.choice([0, 0, 3, 6, 12, 32])), use_scipy=bool(rng.random() < 0.8),
                          cost=1 + n / 3.0 + (4 if dtype == "longdouble" else 0)))
    # right-hand sides with a restricted domain (log, sqrt): a trial point outside it evaluates to NaN, which is not a root
    rng2 = rng_for(1504, seed)
    for i in range(120 if tier == "quick" else 1200):
        n = int(rng2.choice([1, 1, 2, 3, 4]))
        shape = SHAPES[n][int(rng2.integers(len(SHAPES[n])))]
        solver = str(rng2.choice(["nonlinear_roots", "nonlinear_roots", "hybrj", "newtontrustregion"]))
        cases.append(dict(kind="solve", solver=solver, dtype=str(rng2.choice(["float64", "longdouble"])), fam=["logdom", "sqrtdom"][i % 2], n=n, shape=list(shape),
                          jac=bool(rng2.random() < 0.6) or solver == "hybrj", guess=str(rng2.choice(["good", "bad", "x3", "x10", "far"])), tol=str(rng2.choice(["none", "1e-10", "1e-6"])),
                          pseed=int(rng2.integers(1 << 30)), maxiter=0, use_scipy=bool(rng2.random() < 0.7), cost=2 + n / 3.0))
    for i in range(6 if tier == "quick" else 60):
        cases.append(dict(kind="insitu", method=str(rng.choice(["RadauIIA5", "GaussLegendre4", "BackwardEuler", "LobattoIIIC4", "CrankNicolson"])),
                          dtype=str(rng.choice(["float64", "float64", "longdouble"])), pseed=int(rng.integers(1 << 30)), cost=20))
    return cases


def run_case(spec):
    if spec["kind"] == "insitu":
        return _insitu(spec)
    from desolver.utilities import optimizer as opt
    import desolver.backend as D
    dt = dtype_of(spec["dtype"])
    S = System(spec["fam"], spec["n"], spec["shape"], spec["pseed"], dt)
    rng = rng_for(1503, spec["pseed"])
    if spec["guess"] in ("x3", "x10"):
        # inside the domain, but a full Newton step from here leaves it (log: x0 > e*xs)
        x0 = (S.xs * {"x3": 3.5, "x10": 10.0}[spec["guess"]] * rng.uniform(1.0, 1.5, S.n)).astype(dt).reshape(S.shape)
    else:
        off = {"good": 0.05, "bad": 1.5, "far": 25.0, "huge": 1e6}[spec["guess"]]
        x0 = (S.xs + off * rng.uniform(-1, 1, S.n)).astype(dt).reshape(S.shape)
    tol = None if spec["tol"] == "none" else float(spec["tol"])
    tol_eff = float(D.tol_epsilon(dt)) if tol is None else tol
    path = "minpack" if (spec["solver"] == "nonlinear_roots" and spec["dtype"] == "float64") else ("dogleg" if spec["solver"] in ("nonlinear_roots", "hybrj") else "ntr")
    rec = util.Rec(sig="%s|%s|%s|%d|%s|%s|%s|%s|%d" % (spec["solver"], spec["dtype"], spec["fam"], spec["n"], spec["shape"], spec["jac"], spec["guess"], spec["tol"], spec["pseed"] % 53))
    feats = {"solver": spec["solver"], "path": path, "dtype": spec["dtype"], "fam": S.fam, "jac": spec["jac"], "guess": spec["guess"], "has_root": S.has_root}
    jac = S.J if spec["jac"] else None
    if len(S.shape) == 0 and jac is not None:
        jac = lambda x, *a, **k: S.J(np.atleast_1d(x))   # noqa
    import warnings
    mk = {"maxiter": spec["maxiter"]} if spec.get("maxiter") else {}     # an iteration budget that runs out is a failure, never a success
    if mk:
        feats["maxiter"] = "small"
    if spec["solver"] == "nonlinear_roots" and not spec.get("use_scipy", True) and path == "minpack":
        path = feats["path"] = "dogleg"
    try:
        with warnings.catch_warnings():
            warnings.simplefilter("ignore")
            if spec["solver"] == "nonlinear_roots":
                x, info = opt.nonlinear_roots(S.F, x0, jac=jac, tol=tol, use_scipy=spec.get("use_scipy", True), **mk)
                ok = bool(info[0])
            elif spec["solver"] == "hybrj":
                x, info = opt.hybrj(S.F, x0, jac, tol=tol, **mk)
                ok = bool(info[0])
            else:
                x, info = opt.newtontrustregion(S.F, x0, jac=jac, tol=tol, **mk)
                ok = bool(info[0])
    except (np.linalg.LinAlgError, ValueError) as e:
        rec.bump("solver_calls")
        rec.bump("failure_" + path)
        rec.bump("reported_by_exception_" + type(e).__name__)
        rec.nontrivial = True
        if not S.has_root:
            rec.bump("rootless_cases")
        rec.sample = {"spec": spec, "raised": type(e).__name__}
        return rec.out()
    rec.bump("solver_calls")
    rec.nontrivial = True
    if mk:
        rec.bump("small_iteration_budget_cases_" + path)
        if not ok:
            rec.bump("small_iteration_budget_failures_" + path)
    if not S.has_root:
        rec.bump("rootless_cases")
    if S.fam == "hollow":
        rec.bump("zero_diagonal_jacobian_cases_" + path)
    x = np.asarray(x)
    rec.sample = {"spec": spec, "success": ok, "rhs_calls": S.calls}
    if ok:
        rec.bump("success_" + path)
        if x.shape != np.shape(x0):
            rec.violate("result_shape", "result_shape_differs_from_initial_guess", feats, got=list(x.shape), want=list(np.shape(x0)))
            return rec.out()
        Fx = np.asarray(S.F(x), dtype=np.longdouble).reshape(-1)
        res = float(np.sqrt(np.sum(Fx ** 2)))
        Jn = float(np.linalg.norm(np.asarray(S.J(np.asarray(x).reshape(-1) if x.ndim else np.atleast_1d(x)), dtype=np.float64), 2))
        xn = float(np.linalg.norm(np.asarray(x, dtype=np.float64).reshape(-1)))
        bound = K * tol_eff * (S.n + xn) * max(1.0, Jn)
        rec.worst("residual_over_bound_" + path, res / bound)
        rec.sample["residual"] = res
        rec.sample["bound"] = bound
        if S.fam in ("logdom", "sqrtdom"):
            rec.bump("restricted_domain_successes_" + path)
        if not np.isfinite(res):
            rec.violate("false_success", "success_claimed_where_the_function_is_not_finite", feats, x=np.asarray(x, dtype=np.float64).reshape(-1)[:4], tol=tol_eff)
        elif res > bound:
            mech = "success_claimed_with_large_residual"
            if not S.has_root:
                mech = "success_claimed_on_a_system_without_roots"
            if path == "dogleg":
                # the built-in dogleg declares success when the (trust-region limited) step or the trust region itself falls
                # below xtol; the residual is above tol here, so the claim cannot have come from its residual criterion
                mech = "dogleg_success_by_step_or_trust_region_criterion"
            rec.violate("false_success", mech, feats, residual=res, bound=bound, x=np.asarray(x, dtype=np.float64).reshape(-1)[:4], tol=tol_eff, Jnorm=Jn)
    else:
        rec.bump("failure_" + path)
        if S.fam in ("logdom", "sqrtdom"):
            rec.bump("restricted_domain_failures_" + path)
        if S.has_root and spec["guess"] == "good" and spec["fam"] in ("dd",):
            rec.bump("failed_on_solvable_good_guess")
    return rec.out()


def _insitu(spec):
    """every accepted implicit stage solve of a real integration: success => stage residual small (record-only wrapper)."""
    import desolver as de
    import desolver.utilities.optimizer as opt
    from vf import sysrun
    from vf.problems import Manufactured
    dt = dtype_of(spec["dtype"])
    log = {"n": 0, "bad": []}
    orig = opt.nonlinear_roots

    def wrapped(f, x0, jac=None, tol=None, **kw):
        out = orig(f, x0, jac=jac, tol=tol, **kw)
        try:
            ok = bool(out[1][0])
            if ok:
                args = kw.get("additional_args", tuple())
                Fx = np.asarray(f(out[0], *args), dtype=np.longdouble).reshape(-1)
                res = float(np.sqrt(np.sum(Fx ** 2)))
                xn = float(np.linalg.norm(np.asarray(out[0], dtype=np.float64).reshape(-1)))
                bound = K * float(tol) * (Fx.size + xn) * 10.0
                log["n"] += 1
                if res > bound and len(log["bad"]) < 5:
                    log["bad"].append({"residual": res, "bound": bound, "tol": float(tol), "size": int(Fx.size)})
        except Exception as e:
            log["bad"].append({"monitor_error": repr(e)[:100]})
        return out
    opt.nonlinear_roots = wrapped
    rec = util.Rec(sig="insitu|%s|%s|%d" % (spec["method"], spec["dtype"], spec["pseed"] % 1000))
    try:
        prob = Manufactured(3, spec["pseed"], direction=1, nonlin=1.0)
        t0, tf = 0.0, 2.0
        system = sysrun.make_system(prob.rhs, prob.ystar(t0).astype(dt), t0, tf, 0.1, util.methods()[spec["method"]]["cls"], rtol=1e-6, atol=1e-8)
        sysrun.call_integrate(system, max_steps=3000)
    finally:
        opt.nonlinear_roots = orig
    rec.bump("insitu_stage_solves", log["n"])
    rec.nontrivial = log["n"] > 0
    for b in log["bad"]:
        mech = "dogleg_success_by_step_or_trust_region_criterion" if spec["dtype"] == "longdouble" else "stage_solve_reported_success_with_large_residual"
        rec.violate("false_success", mech, {"kind": "insitu", "method": spec["method"], "dtype": spec["dtype"], "path": "dogleg" if spec["dtype"] == "longdouble" else "minpack"}, **b)
    rec.sample = {"spec": spec, "successful_stage_solves_checked": log["n"]}
    return rec.out()
