"""C13 - results do not depend on call history; reset restores the initial state (fresh-twin reference model)."""
import hashlib

import numpy as np

from vf import util, sysrun
from vf.events import Ev
from vf.problems import Manufactured, rng_for

LEVEL = "exploration"
RULE = ("kinds: sequence (random operation sequence over {integrate(), integrate(t), set dt/rtol/atol/method/tf, set_kick_vars, integrate with events, "
        "faulting integrate (also: fault inside the retry of a rejected step), reset} executed twice (determinism: bit-identical logs), then from the last reset on compared bit-for-bit with a FRESH twin "
        "built with the same constructor arguments and persistent settings; state right after reset must be pristine; caller's y0 and constants compared "
        "with private copies after every operation), split (span cut into 2..5 calls vs one call), noop (call at the target changes nothing); "
        "non-trivial = sequence contains a reset followed by an integration; distinct by operation-shape signature")
ASSUMPTIONS = ["persistent settings across reset(): method, rtol, atol, tf, kick mask, constants; dt returns to the constructor's dt with the sign of (tf - t0)"]
RULE += " Strata added in the fourth seeding round: Systems whose method was assigned several times compared bit-for-bit with a fresh system holding the last method, before and after reset()."
FLOORS = {"quick": {"sequences": 100, "resets_checked": 100, "twin_comparisons": 100, "reset_after_event": 15, "reset_after_fault": 15, "reset_after_method_change": 15,
                    "split_pairs": 30, "noop_calls": 30, "call_start_step_replay_steps": 300, "call_start_slope_checks": 100, "faults_inside_a_retry": 8, "cross_process_comparisons": 10, "near_target_noop_calls": 80, "settings_order_pairs": 25, "reassignment_comparisons": 30},
          "thorough": {"sequences": 1000, "resets_checked": 1000, "twin_comparisons": 1000, "reset_after_event": 150, "reset_after_fault": 150,
                       "reset_after_method_change": 150, "split_pairs": 300, "noop_calls": 300, "call_start_step_replay_steps": 3000, "call_start_slope_checks": 1000, "faults_inside_a_retry": 40, "cross_process_comparisons": 70, "near_target_noop_calls": 800, "settings_order_pairs": 250, "reassignment_comparisons": 200}}
CASE_TIMEOUT = 900
METHODS = ["RK45CKSolver", "DOPRI45", "RK4Solver", "EulerSolver", "HeunEulerSolver", "RK8713MSolver", "ABAs5o6HSolver", "SymplecticEulerSolver",
           "BackwardEuler", "RadauIIA5", "GaussLegendre4", "MidpointSolver", "LobattoIIIC4", "R2:RK4Solver", "R3:MidpointSolver", "R3:HeunEulerSolver", "R4:EulerSolver"]
RICH_EXTRA = ["R2:RK4Solver", "R3:MidpointSolver", "R3:HeunEulerSolver", "R4:EulerSolver", "R2:RK45CKSolver", "R5:MidpointSolver"]
# (wrappers of bases flagged symplectic and of implicit bases are orders of magnitude slower at these tolerances: they get the short dedicated histories)
NOT_RUN = "Integration has not been run."


class Fault(Exception):
    pass


def gen_cases(tier, seed):
    rng = rng_for(1301, seed)
    M = util.methods()
    names = METHODS if tier == "quick" else list(M) + RICH_EXTRA
    cases = []
    nseq = 130 if tier == "quick" else 1300
    for i in range(nseq):
        m0 = names[int(rng.integers(len(names)))]
        d = int(rng.choice([-1, 1]))
        ops = []
        n_pre = int(rng.integers(1, 7))
        frac = 0.0
        for j in range(n_pre):
            ops.append(_random_op(rng, names, frac))
            if ops[-1][0] in ("integrate", "integrate_events", "fault_integrate") and ops[-1][1] is not None:
                frac = max(frac, ops[-1][1])
        # make sure the interesting antecedents occur often
        r = rng.random()
        if r < 0.25:
            ops.append(["integrate_events", None])
        elif r < 0.38:
            ops.append(["fault_integrate", None, int(rng.integers(3, 40))])
        elif r < 0.5:
            # the fault fires inside the RETRY of a rejected step (a callback inflates dt before that step), the run is resumed afterwards
            ops.append(["fault_retry_integrate", None, int(rng.integers(2, 6))])
            ops.append(["integrate", None])
        elif r < 0.75:
            ops.append(["set_method", names[int(rng.integers(len(names)))]])
            ops.append(["integrate", None])
        if rng.random() < 0.35:
            # a splitting method with a non-default kick mask in force at the time of the reset
            ops.append(["set_method", str(rng.choice(["ABAs5o6HSolver", "SymplecticEulerSolver", "BABs9o7HSolver"]))])
            ops.append(["set_kick", [bool(x) for x in rng.permutation([True, False, True, False])]])
            ops.append(["integrate", None])
        ops.append(["reset"])
        n_post = int(rng.integers(1, 4))
        frac = 0.0
        for j in range(n_post):
            op = _random_op(rng, names, frac, allow_fault=False)
            ops.append(op)
            if op[0] in ("integrate", "integrate_events") and op[1] is not None:
                frac = max(frac, op[1])
        ops.append(["integrate", None])
        cases.append(dict(kind="sequence", method=m0, direction=d, dense=bool(rng.random() < 0.5), ops=ops, pseed=int(rng.integers(1 << 30)), cost=4 + len(ops)))
    # core battery: fault inside the retry of a rejected step, resume, reset, rerun - for the step-size controlled families
    adaptive = [n for n in names if ":" not in n and M[n]["adaptive"]]
    for m0 in adaptive:
        for d in (1, -1):
            for dense in ((True, False) if tier == "thorough" else (bool((len(m0) + d) % 2),)):
                for kstep in ((2, 3, 5) if tier == "thorough" else (int(rng.integers(2, 5)),)):
                    cases.append(dict(kind="sequence", method=m0, direction=d, dense=dense, pseed=int(rng.integers(1 << 30)), cost=8,
                                      ops=[["fault_retry_integrate", None, kstep], ["integrate", None], ["reset"], ["integrate", None]]))
    # wrappers of bases flagged symplectic take their own (halving / doubling only) step-size branch: short reset histories at loose tolerances
    for m0 in ["R3:ABAs5o6HSolver", "R2:SymplecticEulerSolver", "R2:BABs9o7HSolver"]:
        for d in (1, -1):
            cases.append(dict(kind="sequence", method=m0, direction=d, dense=bool(d > 0), pseed=int(rng.integers(1 << 30)), cost=25, settings=dict(rtol=1e-3, atol=1e-5),
                              ops=[["integrate", 0.5], ["reset"], ["integrate", 0.5], ["integrate", None]]))
    # the order in which settings reach the system does not matter: tolerances / method / kick mask given at construction, or assigned later in
    # any order before the first step, give bit-identical runs
    so_names = [n for n in names if ":" not in n or n.startswith("R2") or n.startswith("R3:Mid") or n.startswith("R3:Heun") or n.startswith("R4")]
    for i in range((len(so_names) + 14) if tier == "quick" else 300):
        m0 = so_names[i % len(so_names)]       # every method at least once with the tolerances assigned after the method
        rt = float(10 ** rng.uniform(-7, -3))
        cases.append(dict(kind="settings_order", method=m0, direction=int(rng.choice([-1, 1])), dense=bool(rng.random() < 0.3), rtol=rt, atol=rt * float(10 ** rng.uniform(-3, 0)),
                          order=(["method", "tol"] if i < len(so_names) else [str(x) for x in rng.permutation(["tol", "method"])]), loose_first=float(10 ** rng.uniform(0.5, 3)), pseed=int(rng.integers(1 << 30)), cost=6))
    # a method assigned more than once (the same splitting scheme twice, one splitting scheme after another, a splitting scheme after an ordinary
    # one, with or without a run in between) leaves the system as a single assignment of the LAST method leaves a fresh one - before and after reset()
    rngr = rng_for(1303, seed)
    spl = ["ABAs5o6HSolver", "SymplecticEulerSolver", "BABs9o7HSolver"]
    for i in range(18 if tier == "quick" else 120):
        last = spl[i % 3] if i % 4 != 3 else str(rngr.choice(["RK4Solver", "RK45CKSolver", "GaussLegendre4"]))
        chain = [str(rngr.choice(spl + ["RK4Solver", "RK45CKSolver"])) for _ in range(int(rngr.integers(1, 3)))]
        if i % 3 == 0:
            chain[-1] = last          # the same scheme assigned twice in a row
        cases.append(dict(kind="reassign", method=last, chain=chain, run_between=bool(rngr.random() < 0.4), dim=int(rngr.choice([2, 4])), direction=int(rngr.choice([-1, 1])),
                          dense=bool(rngr.random() < 0.3), pseed=int(rngr.integers(1 << 30)), cost=5))
    # the same sequence in THIS interpreter and in a fresh one started with another hash seed: bit-identical logs (no dependence on
    # interpreter state, import order, dict/set iteration order or class-level caches filled by earlier work of this process)
    seqs = [c for c in cases if c["kind"] == "sequence"]
    for i in range(12 if tier == "quick" else 80):
        src = seqs[int(rng.integers(len(seqs)))]
        cases.append(dict(src, kind="crossproc", cost=10))
    for i in range(40 if tier == "quick" else 400):
        m0 = names[int(rng.integers(len(names)))]
        cuts = sorted(float(x) for x in rng.uniform(0.1, 0.9, int(rng.integers(1, 5))))
        cases.append(dict(kind="split", method=m0, direction=int(rng.choice([-1, 1])), cuts=cuts, pseed=int(rng.integers(1 << 30)), cost=6))
    return cases


def _random_op(rng, names, frac, allow_fault=True):
    r = rng.random()
    if r < 0.3:
        f2 = float(rng.uniform(frac + 0.05, 1.0)) if frac < 0.9 else None
        return ["integrate", f2]
    if r < 0.4:
        return ["integrate", None]
    if r < 0.5:
        return ["integrate_events", float(rng.uniform(frac + 0.05, 1.0)) if frac < 0.9 else None]
    if r < 0.6 and allow_fault:
        return ["fault_integrate", None, int(rng.integers(3, 60))]
    if r < 0.7:
        return ["set_dt", float(10 ** rng.uniform(-2.5, -0.5))]
    if r < 0.8:
        rt = float(10 ** rng.uniform(-8, -3))
        return ["set_tol", rt, rt * 0.01]
    if r < 0.9:
        return ["set_method", names[int(rng.integers(len(names)))]]
    if r < 0.95:
        return ["set_kick", [bool(x) for x in rng.integers(0, 2, 4)]]
    return ["set_tf_scale", float(rng.uniform(0.6, 1.4))]


def _digest(system):
    h = hashlib.sha1()
    h.update(np.ascontiguousarray(system.t).tobytes())
    h.update(np.ascontiguousarray(system.y).tobytes())
    for e in system.events:
        h.update(np.asarray(e.t).tobytes())
        h.update(np.ascontiguousarray(e.y).tobytes())
    return h.hexdigest()


class Runner:
    """executes an operation list on ONE system; logs a digest after every operation."""

    def __init__(self, spec, prob, t0, tf, settings=None):
        import desolver as de
        self.de = de
        self.spec = spec
        self.prob = prob
        self.t0, self.tf0 = t0, tf
        self.fault = {"at": None, "n": 0}
        self.consts = {"gain": 1.0}
        self.consts_copy = dict(self.consts)
        self.y0 = prob.ystar(t0).astype(np.float64)
        if len(self.y0) < 4:
            self.y0 = np.concatenate([self.y0, self.y0[::-1] * 0.5])[:4]
        self.y0_copy = self.y0.copy()
        self.dt0 = abs(tf - t0) / 23.0
        M = util.methods()
        self.M = M
        self.settings = dict(method=spec["method"], rtol=1e-5, atol=1e-7, tf=tf, mask=None)
        if spec.get("settings"):
            self.settings.update(spec["settings"])
        if settings:
            self.settings.update(settings)
        s = self.settings
        self.system = de.OdeSystem(self.f, y0=self.y0, t=(t0, tf), dense_output=spec.get("dense", False), dt=self.dt0, rtol=s["rtol"], atol=s["atol"], constants=self.consts)
        import warnings
        with warnings.catch_warnings():
            warnings.simplefilter("ignore")
            self.system.method = util.resolve_cls(s["method"], M)
            if s["tf"] != tf:
                self.system.tf = s["tf"]
            if s["mask"] is not None:
                self.system.set_kick_vars(np.array(s["mask"]))
        self.log = []
        self.flags = set()
        self.violations = []
        self.since_reset = {"event": False, "fault": False, "method": False}

    def f(self, t, y, gain=1.0, **kw):
        self.fault["n"] += 1
        pred = self.fault.get("pred")
        if pred is not None and pred():
            self.fault["pred"] = None
            self.fault["fired_in_retry"] = True
            raise Fault("injected inside a retry")
        if self.fault["at"] is not None and self.fault["n"] >= self.fault["at"]:
            self.fault["at"] = None
            raise Fault("injected")
        p = self.prob
        out = np.empty_like(y)
        out[:2] = p.rhs(t, y[:2]) * gain
        out[2:] = -0.7 * y[2:] + 0.1 * np.sin(t)
        return out

    def events(self):
        tf = float(self.system.tf)
        t_now = float(self.system.t[-1])
        e1 = Ev({"kind": "component", "i": 2, "scale": 5.0, "c": 0.01, "direction": 0, "terminal": False}, 4)
        e2 = Ev({"kind": "time", "scale": 1.0, "c": t_now + 0.37 * (tf - t_now), "direction": 0, "terminal": False}, 4)
        return [e1, e2]

    def target(self, frac):
        if frac is None:
            return None
        tf = float(self.system.tf)
        return self.t0 + frac * (tf - self.t0)

    def apply(self, op):
        import warnings
        s = self.system
        name = op[0]
        out = {"op": op, "raised": None}
        try:
            with warnings.catch_warnings():
                warnings.simplefilter("ignore")
                if name == "integrate":
                    s.integrate(self.target(op[1]))
                elif name == "integrate_events":
                    s.integrate(self.target(op[1]), events=self.events())
                    self.since_reset["event"] = True
                elif name == "fault_integrate":
                    self.fault["at"] = self.fault["n"] + op[2]
                    try:
                        s.integrate(self.target(op[1]))
                    finally:
                        if self.fault["at"] is None:
                            self.since_reset["fault"] = True
                        self.fault["at"] = None
                elif name == "fault_retry_integrate":
                    from vf.instrument import StepLog
                    slog = StepLog(s.integrator)
                    st_ = {"steps": 0, "watch": False}

                    def cb(sys_):
                        st_["steps"] += 1
                        slog.attempts.append({"boundary": 1})
                        if st_["steps"] == op[2]:
                            sys_.dt = sys_.dt * 8.0
                            st_["watch"] = True

                    def pred():
                        if not st_["watch"]:
                            return False
                        tail = []
                        for a in slog.attempts:
                            tail = [] if "boundary" in a else tail + [a]
                        return len(tail) >= 2
                    self.fault["pred"] = pred
                    try:
                        s.integrate(self.target(op[1]), callback=cb)
                    finally:
                        if self.fault.get("fired_in_retry"):
                            self.since_reset["fault"] = True
                            self.flags.add("fault_in_retry")
                        self.fault["pred"] = None
                elif name == "set_dt":
                    s.dt = op[1]
                elif name == "set_tol":
                    s.rtol = op[1]
                    s.atol = op[2]
                    self.settings["rtol"], self.settings["atol"] = op[1], op[2]
                elif name == "set_method":
                    s.method = util.resolve_cls(op[1], self.M)
                    self.settings["method"] = op[1]
                    self.since_reset["method"] = True
                elif name == "set_kick":
                    s.set_kick_vars(np.array(op[1]))
                    self.settings["mask"] = list(op[1])
                elif name == "set_tf_scale":
                    new_tf = self.t0 + op[1] * (self.tf0 - self.t0)
                    s.tf = new_tf
                    self.settings["tf"] = new_tf
                elif name == "reset":
                    s.reset()
        except BaseException as e:   # noqa
            if type(e).__name__ in ("CaseTimeout", "NoProgress") or type(getattr(e, "__cause__", None)).__name__ in ("CaseTimeout", "NoProgress"):
                raise    # the per-case wall-clock watchdog: inconclusive, never part of the history
            out["raised"] = type(e).__name__
            if not isinstance(e, (self.de.exception_types.FailedIntegration, ValueError)):
                out["unexpected"] = repr(e)[:200]
        out["digest"] = _digest(s)
        out["rows"] = len(s)
        out["dt"] = float(s.dt)
        out["nfev"] = int(s.nfev)
        out["status"] = s.integration_status[:40]
        self.log.append(out)
        if not np.array_equal(self.y0, self.y0_copy):
            self.violations.append(("caller_data", "y0_array_modified", {"after": op}))
        if self.consts != self.consts_copy:
            self.violations.append(("caller_data", "constants_dict_modified", {"after": op}))
        return out


def _sequence_log(spec):
    d = spec["direction"]
    prob = Manufactured(2, spec["pseed"], direction=d)
    t0 = 0.2
    R = Runner(spec, prob, t0, t0 + d * 2.5)
    for op in spec["ops"]:
        R.apply(op)
    return [[o["digest"], o["rows"], repr(o["dt"]), o["nfev"], o["raised"]] for o in R.log]


def _crossproc(spec):
    import json
    import os
    import subprocess
    import sys
    rec = util.Rec(sig="xproc|%s|%d|%d" % (spec["method"], spec["direction"], spec["pseed"] % 1009))
    feats = {"method": spec["method"], "direction": spec["direction"], "dense": spec["dense"], "kind": "crossproc"}
    here = _sequence_log(spec)
    env = dict(os.environ, PYTHONHASHSEED="4242")
    p = subprocess.run([sys.executable, "-m", "vf.props.c13"], input=json.dumps(spec), capture_output=True, text=True, env=env, timeout=600,
                       cwd=os.path.dirname(os.path.dirname(os.path.dirname(os.path.abspath(__file__)))))
    lines = [l for l in p.stdout.splitlines() if l.startswith("LOG ")]
    if p.returncode != 0 or not lines:
        raise RuntimeError("child interpreter failed: rc=%s %s" % (p.returncode, p.stderr[-400:]))
    there = json.loads(lines[-1][4:])
    rec.bump("cross_process_comparisons")
    rec.nontrivial = any(r[1] > 1 for r in here)
    if here != there:
        k = next((i for i in range(min(len(here), len(there))) if here[i] != there[i]), min(len(here), len(there)))
        rec.violate("determinism", "same_sequence_differs_between_this_process_and_a_fresh_interpreter", dict(feats, op=spec["ops"][k][0] if k < len(spec["ops"]) else None),
                    at=k, here=here[k] if k < len(here) else None, fresh=there[k] if k < len(there) else None)
    rec.sample = {"spec": {"method": spec["method"], "ops": spec["ops"]}, "operations": len(here)}
    return rec.out()


def _settings_order(spec):
    import warnings
    d = spec["direction"]
    prob = Manufactured(2, spec["pseed"], direction=d)
    t0 = 0.2
    tf = t0 + d * 2.5
    rec = util.Rec(sig="settings|%s|%d|%s|%d" % (spec["method"], d, "".join(o[0] for o in spec["order"]), spec["pseed"] % 1009))
    feats = {"method": spec["method"], "direction": d, "dense": spec["dense"], "kind": "settings_order", "order": "".join(o[0] for o in spec["order"])}
    # A: final settings from the start
    A = Runner(spec, prob, t0, tf, settings=dict(rtol=spec["rtol"], atol=spec["atol"]))
    # B: constructed with looser tolerances and the default method; the final settings are assigned afterwards in the given order
    spec_b = dict(spec, method="RK45CKSolver")
    B = Runner(spec_b, prob, t0, tf, settings=dict(rtol=spec["rtol"] * spec["loose_first"], atol=spec["atol"] * spec["loose_first"]))
    with warnings.catch_warnings():
        warnings.simplefilter("ignore")
        for what in spec["order"]:
            if what == "tol":
                B.system.rtol = spec["rtol"]
                B.system.atol = spec["atol"]
            else:
                B.system.method = util.resolve_cls(spec["method"], B.M)
    for R in (A, B):
        R.apply(["integrate", 0.6])
        R.apply(["integrate", None])
    rec.bump("settings_order_pairs")
    rec.nontrivial = A.log[-1]["rows"] > 3
    la = [(o["digest"], o["rows"], o["raised"]) for o in A.log]
    lb = [(o["digest"], o["rows"], o["raised"]) for o in B.log]
    if la != lb:
        rec.violate("settings_order", "same_settings_reached_in_a_different_order_give_a_different_run", feats, from_construction=[x[1:] for x in la], assigned_later=[x[1:] for x in lb],
                    rtol=spec["rtol"], atol=spec["atol"])
    rec.sample = {"spec": {k: spec[k] for k in ("method", "direction", "rtol", "atol", "order")}, "rows": A.log[-1]["rows"]}
    return rec.out()


def _reassign(spec):
    M = util.methods()
    d = spec["direction"]
    prob = Manufactured(spec["dim"], spec["pseed"], direction=d)
    t0, tf = 0.2, 0.2 + d * 2.0
    rec = util.Rec(sig="reassign|%s|%s|%d|%d|%s" % (spec["method"], "+".join(spec["chain"]), spec["dim"], d, spec["run_between"]))
    feats = {"kind": "reassign", "method": spec["method"], "chain": "+".join(spec["chain"]), "dim": spec["dim"], "direction": d, "run_between": spec["run_between"]}

    def f(t, y, **kw):
        return prob.rhs(t, y)
    y0 = prob.ystar(t0).astype(np.float64)

    def fresh():
        return sysrun.make_system(f, y0.copy(), t0, tf, 0.05, M[spec["method"]]["cls"], dense=spec["dense"], rtol=1e-6, atol=1e-8)
    A = sysrun.make_system(f, y0.copy(), t0, tf, 0.05, M[spec["chain"][0]]["cls"], dense=spec["dense"], rtol=1e-6, atol=1e-8)
    for nm in spec["chain"][1:]:
        if spec["run_between"]:
            sysrun.call_integrate(A, t=float(A.t[-1]) + d * 0.2, max_steps=20000)
        A.method = M[nm]["cls"]
    if spec["run_between"]:
        sysrun.call_integrate(A, t=float(A.t[-1]) + d * 0.2, max_steps=20000)
        A.method = M[spec["method"]]["cls"]
        A.reset()
    else:
        A.method = M[spec["method"]]["cls"]
    B = fresh()
    for phase in ("after_reassignment", "after_reset"):
        sa = sysrun.call_integrate(A, max_steps=20000)
        sb = sysrun.call_integrate(B, max_steps=20000)
        rec.bump("reassignment_comparisons")
        f2 = dict(feats, phase=phase)
        if bool(sa["raised"]) != bool(sb["raised"]):
            rec.violate("reassigned_method", "run_after_repeated_method_assignment_raises_but_fresh_system_does_not" if sa["raised"] else "fresh_system_raises_only", f2,
                        err=repr(getattr(sa["exc"], "__cause__", None) or sa["exc"])[:200])
            break
        if not (len(A) == len(B) and np.array_equal(np.asarray(A.t), np.asarray(B.t)) and np.array_equal(np.asarray(A.y), np.asarray(B.y))):
            n_ = min(len(A), len(B))
            rec.violate("reassigned_method", "run_after_repeated_method_assignment_differs_from_fresh_system_with_that_method", f2, rows=[len(A), len(B)],
                        max_diff=float(np.max(np.abs(np.asarray(A.y)[:n_] - np.asarray(B.y)[:n_]))))
            break
        A.reset()
        B = fresh()
    rec.nontrivial = len(B) >= 1
    rec.sample = {"spec": {k: spec[k] for k in ("method", "chain", "dim", "direction", "run_between")}, "rows": len(A)}
    return rec.out()


def run_case(spec):
    if spec["kind"] == "reassign":
        return _reassign(spec)
    if spec["kind"] == "split":
        return _split(spec)
    if spec["kind"] == "settings_order":
        return _settings_order(spec)
    if spec["kind"] == "crossproc":
        return _crossproc(spec)
    d = spec["direction"]
    prob = Manufactured(2, spec["pseed"], direction=d)
    t0 = 0.2
    tf = t0 + d * 2.5
    rec = util.Rec(sig="seq|%s|%d|%s" % (spec["method"], d, "".join(o[0][0] + (o[0][4] if len(o[0]) > 4 else "") for o in spec["ops"])))
    feats = {"method": spec["method"], "direction": d, "dense": spec["dense"]}
    # ---- run the sequence twice: determinism
    logs = []
    runners = []
    for rep in range(2):
        R = Runner(spec, prob, t0, tf)
        antecedents = None
        for op in spec["ops"]:
            if op[0] == "reset":
                antecedents = dict(R.since_reset)
                settings_at_reset = dict(R.settings)
                # the kick mask actually in force is read from the system (set_method() forgets a mask that was set while a
                # non-splitting method was selected - 'same settings' means the settings the system really holds)
                sm = R.system.staggered_mask
                settings_at_reset["mask"] = None if sm is None else [bool(x) for x in np.asarray(sm).reshape(-1)]
                idx_reset = len(R.log)
            n_rows0 = len(R.system)
            o = R.apply(op)
            if rep == 0 and op[0] == "fault_retry_integrate" and "fault_in_retry" in R.flags:
                rec.bump("faults_inside_a_retry")
            if rep == 0 and op[0] in ("integrate", "integrate_events", "fault_integrate", "fault_retry_integrate") and len(R.system) > n_rows0 and ":" not in R.settings["method"]:
                # the first steps of every call start where an earlier call (completed, failed, with other settings) left off: they must be
                # the steps a fresh integrator takes from the recorded row
                inf_ = R.M[R.settings["method"]]
                sm_ = R.system.staggered_mask if inf_["splitting"] else None
                sysrun.replay_steps(rec, inf_, R.f, np.asarray(R.system.t), np.asarray(R.system.y), range(n_rows0 - 1, min(n_rows0 + 1, len(R.system) - 1)),
                                    dict(feats, op=op[0], method_now=R.settings["method"]), R.settings["rtol"], R.settings["atol"], prob.lipschitz() + 1.0,
                                    constants=R.consts, clause="call_start_step_replay", mask=None if sm_ is None else np.asarray(sm_))
                sol_ = R.system.sol
                if spec["dense"] and sol_ is not None and sol_.t_eval is not None and n_rows0 >= 1:
                    # with dense output kept, the first piece of the call starts with f at the recorded row it starts from
                    tj = float(R.system.t[n_rows0 - 1])
                    for p_ in sol_.y_interpolants:
                        if float(p_.t0) == tj:
                            fj = np.asarray(R.f(np.asarray(p_.t0), np.asarray(p_.p0), **R.consts))
                            rec.bump("call_start_slope_checks")
                            e_ = float(np.max(np.abs(np.asarray(p_.m0) - fj)))
                            if e_ > 1e-11 * (1 + float(np.max(np.abs(fj)))):
                                rec.violate("call_start_slope", "first_dense_piece_of_a_call_starts_with_a_slope_from_elsewhere", dict(feats, op=op[0], method_now=R.settings["method"]), err=e_)
                            break
            if op[0] == "reset":
                R.since_reset = {"event": False, "fault": False, "method": False}
                # ---- pristine state right after reset
                s = R.system
                fr = dict(feats, after=[k for k, v in antecedents.items() if v])
                if len(s) != 1 or float(s.t[0]) != t0 or not np.array_equal(np.asarray(s.y[0]), R.y0_copy):
                    rec.violate("reset_state", "trajectory_not_reset_to_initial_row", fr, rows=len(s))
                if len(s.events) != 0:
                    rec.violate("reset_state", "events_survive_reset", fr)
                if s.sol is not None and s.sol.t_eval is not None and len(s.sol.y_interpolants) > 0:
                    rec.violate("reset_state", "dense_output_survives_reset", fr)
                if s.nfev != 0:
                    rec.violate("reset_state", "nfev_not_zero_after_reset", fr, nfev=s.nfev)
                if s.integration_status != NOT_RUN:
                    rec.violate("reset_state", "status_not_pristine_after_reset", fr, status=s.integration_status)
                want_dt = R.dt0 * np.sign(float(s.tf) - t0)
                if float(s.dt) != want_dt:
                    rec.violate("reset_state", "dt_not_restored_to_constructor_value", fr, dt=float(s.dt), want=float(want_dt))
                if rep == 0:
                    rec.bump("resets_checked")
                    for k, v in antecedents.items():
                        if v:
                            rec.bump("reset_after_" + ("method_change" if k == "method" else k))
        logs.append(R.log)
        runners.append(R)
        for (c, m, dd) in R.violations:
            rec.violate(c, m, feats, **dd)
        for o in R.log:
            if "unexpected" in o:
                rec.violate("unexpected_exception_in_operation", o["raised"], dict(feats, op=o["op"][0]), err=o["unexpected"])
    rec.bump("sequences")
    a = [(o["digest"], o["rows"], o["dt"], o["nfev"], o["raised"]) for o in logs[0]]
    b = [(o["digest"], o["rows"], o["dt"], o["nfev"], o["raised"]) for o in logs[1]]
    if a != b:
        k = next(i for i in range(len(a)) if a[i] != b[i])
        rec.violate("determinism", "same_sequence_gave_different_results", dict(feats, op=spec["ops"][k][0]), at=k, first=a[k], second=b[k])
    # ---- fresh twin from the last reset on
    post_ops = spec["ops"][idx_reset + 1:]
    T = Runner(spec, prob, t0, tf, settings=settings_at_reset)
    for op in post_ops:
        T.apply(op)
    la = logs[0][idx_reset + 1:]
    lb = T.log
    rec.bump("twin_comparisons")
    rec.nontrivial = any(op[0].startswith("integrate") for op in post_ops)
    for i, (x, yv) in enumerate(zip(la, lb)):
        if (x["digest"], x["rows"], x["raised"]) != (yv["digest"], yv["rows"], yv["raised"]):
            rec.violate("reset_vs_fresh", "after_reset_results_differ_from_a_freshly_constructed_system",
                        dict(feats, op=post_ops[i][0], after=[k for k, v in antecedents.items() if v]), at=i, reset_rows=x["rows"], fresh_rows=yv["rows"],
                        reset_raised=x["raised"], fresh_raised=yv["raised"], reset_dt=x["dt"], fresh_dt=yv["dt"])
            break
        if x["nfev"] != yv["nfev"] - 0 and False:
            pass
    if spec["dense"] and runners[0].system.sol is not None and T.system.sol is not None and runners[0].system.sol.t_eval is not None and T.system.sol.t_eval is not None:
        ts = np.linspace(float(T.system.t[0]), float(T.system.t[-1]), 17)
        try:
            va = np.asarray(runners[0].system.sol(ts))
            vb = np.asarray(T.system.sol(ts))
            if not np.array_equal(va, vb):
                rec.violate("reset_vs_fresh", "dense_output_after_reset_differs_from_fresh_system", feats, maxdiff=float(np.max(np.abs(va - vb))))
        except Exception as e:
            rec.violate("reset_vs_fresh", "dense_query_raised", feats, err=repr(e)[:200])
    # ---- no-op at the target
    s = runners[0].system
    if abs(float(s.t[-1]) - float(s.tf)) < 1e-12:
        before = (_digest(s), float(s.dt), int(s.nfev), len(s.events))
        s.integrate()
        after = (_digest(s), float(s.dt), int(s.nfev), len(s.events))
        rec.bump("noop_calls")
        if before != after:
            rec.violate("noop", "call_at_the_target_changed_the_system", feats, before=before[1:], after=after[1:])
    # ... and so does a call whose target lies within the end tolerance of the integration loop (32 eps) of the current time: the library
    # itself regards the system as being there (the loop does not step), so nothing - dt included - may change
    if abs(float(s.t[-1])) < 4.0 and len(s) > 1:
        before = (_digest(s), float(s.dt), int(s.nfev), len(s.events))
        try:
            s.integrate(float(s.t[-1]) + float(np.sign(float(s.t[-1]) - float(s.t[-2])) or 1.0) * 3e-15)
        except Exception as e:
            rec.violate("noop", "call_within_the_end_tolerance_raised", feats, err=repr(e)[:200])
        after = (_digest(s), float(s.dt), int(s.nfev), len(s.events))
        rec.bump("near_target_noop_calls")
        if before != after:
            rec.violate("noop", "call_within_the_end_tolerance_of_the_current_time_changed_the_system", feats, before=before[1:], after=after[1:])
    rec.sample = {"spec": {"method": spec["method"], "direction": d, "ops": spec["ops"]}, "log_tail": [{k: o[k] for k in ("rows", "raised", "dt")} for o in logs[0][-3:]]}
    return rec.out()


def _split(spec):
    M = util.methods()
    info = dict(M[spec["method"].split(":")[-1]])
    info["cls"] = util.resolve_cls(spec["method"], M)
    if ":" in spec["method"]:
        info["family"] = "richardson"
    d = spec["direction"]
    prob = Manufactured(2, spec["pseed"], direction=d)
    t0 = -0.4
    tf = t0 + d * 3.0
    rec = util.Rec(sig="split|%s|%d|%d" % (spec["method"], d, len(spec["cuts"])))
    feats = {"method": spec["method"], "family": info["family"], "direction": d, "ncuts": len(spec["cuts"])}
    y0 = prob.ystar(t0).astype(np.float64)
    rtol, atol = 1e-6, 1e-8

    def mk():
        return sysrun.make_system(prob.rhs, y0.copy(), t0, tf, 3.0 / 64, info["cls"], rtol=rtol, atol=atol)
    a = mk()
    sa = sysrun.call_integrate(a, max_steps=50000)
    b = mk()
    raised = None
    segs = [sa]
    for c in spec["cuts"]:
        sb = sysrun.call_integrate(b, t=t0 + c * (tf - t0), max_steps=50000)
        segs.append(sb)
        raised = raised or sb["raised"]
        if sb["raised"]:
            break
    if not raised:
        sb = sysrun.call_integrate(b, max_steps=50000)
        segs.append(sb)
        raised = raised or sb["raised"]
    budget = any(isinstance(getattr(x.get("exc"), "__cause__", None), sysrun.StepBudgetExceeded) or isinstance(x.get("exc"), sysrun.StepBudgetExceeded) for x in segs)
    if budget:
        rec.skipped = "step budget of the harness exhausted (slow method at this tolerance)"
        return rec.out()
    if sa["raised"] or raised:
        if bool(sa["raised"]) != bool(raised):
            rec.violate("split_vs_single", "one_raised_the_other_did_not", feats, single=str(sa["raised"]), split=str(raised))
        return rec.out()
    rec.bump("split_pairs")
    rec.nontrivial = True
    ya, yb = np.asarray(a.y[-1]), np.asarray(b.y[-1])
    ex = np.asarray(prob.ystar(tf), dtype=np.float64)
    err_single = float(np.max(np.abs(ya - ex)))
    diff = float(np.max(np.abs(ya - yb)))
    unit = 20 * max(atol + rtol * float(np.max(np.abs(ex))), err_single)
    if info["family"] in ("implicit_fixed",):
        # non-adaptive implicit methods grow their step (KF06): every call restarts from the small step, so the split run is
        # more accurate than the single one; compare each with the exact solution instead
        unit = 20 * max(err_single, float(np.max(np.abs(yb - ex))), atol)
    rec.worst("split_difference_over_unit", diff / unit)
    rec.sample = {"spec": spec, "difference": diff, "single_run_error": err_single}
    if abs(float(a.t[-1]) - float(b.t[-1])) > 1e-12:
        rec.violate("split_vs_single", "end_times_differ", feats, ta=float(a.t[-1]), tb=float(b.t[-1]))
    if diff > unit:
        rec.violate("split_vs_single", "split_run_differs_from_single_run_beyond_tolerance", feats, diff=diff, unit=unit, single_error=err_single)
    return rec.out()


if __name__ == "__main__":     # child side of the cross-process determinism probe: spec on stdin, log on stdout
    import json as _json
    import sys as _sys
    import warnings as _w
    _w.simplefilter("ignore")
    from vf import core as _core
    _core.activate_repo()
    np.seterr(all="ignore")
    _spec = _json.loads(_sys.stdin.read())
    print("LOG " + _json.dumps(_sequence_log(_spec)))
