"""C10 - symplectic methods produce symplectic, time-reversible maps (incl. all kick-mask routes and layouts)."""
import numpy as np

from vf import util, sysrun
from vf.problems import Hamiltonian, rng_for

LEVEL = "exploration"
RULE = ("kinds: jtest_linear (quadratic H: exact step matrix M from basis vectors, ||M^T J M - J||), jtest_fd (nonlinear H: central differences in "
        "longdouble), reverse (step h then -h), energy (3000 fixed steps, no secular drift), mask (same Hamiltonian in layouts qp / pq / interleaved with "
        "the matching kick mask through set_kick_vars / set_method(staggered_mask=) / integrator constructor; J-test on the step actually taken), "
        "control (non-symplectic methods must FAIL the J-test: the monitor can fire); non-trivial = probe executed with a finite defect; "
        "distinct by (kind, method, hamiltonian, layout, route, sign, seed)")
ASSUMPTIONS = ["finite-difference J-test: delta=1e-5 in longdouble, threshold 1e-8; exact linear J-test threshold 1e4*eps*cond (splitting) / 1e3*solver tolerance (implicit)"]
RULE += " Strata added in the fourth seeding round: h / -h round trips on explicitly time-dependent separable Hamiltonians."
FLOORS = {"quick": {"jtest_linear": 24, "jtest_fd": 24, "reverse_probes": 24, "energy_runs": 6, "mask_probes": 36, "controls_fired": 3, "reuse_probes": 20,
                    "reuse_nearby_state_probes": 40, "hard_steps_accepted": 10, "hard_stage_residual_checks": 20, "hard_steps_with_a_failed_stage_iteration_under_user_fn": 4, "reverse_probes_time_dependent": 10},
          "thorough": {"jtest_linear": 60, "jtest_fd": 60, "reverse_probes": 60, "energy_runs": 36, "mask_probes": 240, "controls_fired": 20, "reuse_probes": 150,
                       "reuse_nearby_state_probes": 300, "hard_steps_accepted": 60, "hard_stage_residual_checks": 100, "hard_steps_with_a_failed_stage_iteration_under_user_fn": 20, "reverse_probes_time_dependent": 40}}
CASE_TIMEOUT = 1200
SPLIT = ["SymplecticEulerSolver", "ABAs5o6HSolver", "BABs9o7HSolver"]
LAYOUTS = ["qp", "pq", "interleaved"]
ROUTES = ["set_kick_vars", "set_method", "constructor", "method_change"]


def symplectic_methods():
    M = util.methods()
    return [n for n, i in M.items() if i["symplectic"]]


def gen_cases(tier, seed):
    M = util.methods()
    rng = rng_for(1001, seed)
    sym = symplectic_methods()
    cases = []
    reps = 2 if tier == "quick" else 8
    for name in sym:
        for r in range(reps):
            for sgn in (1, -1):
                h = sgn * float(rng.uniform(0.05, 0.5))
                cases.append(dict(kind="jtest_linear", method=name, ham=str(rng.choice(["harmonic", "coupled_quadratic"])), h=h, pseed=int(rng.integers(1 << 30)), cost=2 if M[name]["explicit"] else 10))
                cases.append(dict(kind="jtest_fd", method=name, ham=str(rng.choice(["pendulum", "duffing", "henon_heiles", "quartic_chain"])), h=h, pseed=int(rng.integers(1 << 30)), cost=4 if M[name]["explicit"] else 60))
                cases.append(dict(kind="reverse", method=name, ham=str(rng.choice(["pendulum", "duffing", "henon_heiles", "quartic_chain", "coupled_quadratic"])), h=h, pseed=int(rng.integers(1 << 30)), cost=2 if M[name]["explicit"] else 10))
        # separable Hamiltonians with an explicitly time-dependent potential (driven pendulum / Duffing / chain): H = T(p) + V(q) - q.F(t)
        for r in range(2 if tier == "quick" else 8):
            cases.append(dict(kind="reverse_driven", method=name, ham=str(rng.choice(["pendulum", "duffing", "quartic_chain", "coupled_quadratic"])),
                              h=float(rng.choice([-1, 1])) * float(rng.uniform(0.05, 0.5)), pseed=int(rng.integers(1 << 30)), cost=2 if M[name]["explicit"] else 10))
        for r in range(1 if tier == "quick" else 6):
            cases.append(dict(kind="energy", method=name, ham=str(rng.choice(["pendulum", "duffing", "henon_heiles"])), h=float(rng.choice([-1, 1])) * float(rng.uniform(0.02, 0.08)),
                              pseed=int(rng.integers(1 << 30)), cost=40 if M[name]["explicit"] else 300))
    for name in SPLIT:
        for lay in LAYOUTS:
            for route in ROUTES:
                for r in range(1 if tier == "quick" else 7):
                    cases.append(dict(kind="mask", method=name, ham=str(rng.choice(["pendulum", "coupled_quadratic", "henon_heiles", "quartic_chain"])), layout=lay, route=route,
                                      mask_type=str(rng.choice(["bool", "bool", "int", "list_int", "list_bool"])),
                                      h=float(rng.choice([-1, 1])) * float(rng.uniform(0.05, 0.4)), pseed=int(rng.integers(1 << 30)), cost=4))
    # ONE integrator object re-used across probes (step h, step -h back to the same time, next state): the map must not depend on
    # what the object did before
    for name in sym:
        for r in range(1 if tier == "quick" else 6):
            cases.append(dict(kind="reuse", method=name, ham=str(rng.choice(["pendulum", "duffing", "henon_heiles", "quartic_chain", "coupled_quadratic"])),
                              h=float(rng.choice([-1, 1])) * float(rng.uniform(0.05, 0.4)), pseed=int(rng.integers(1 << 30)), cost=3 if M[name]["explicit"] else 20))
    # steps so long that the stage iteration of the implicit symplectic methods may fail: whatever (dTime, dState) is handed back, with the
    # library's own controller or with a user adaptation_fn in its place, must be a step of the symplectic, symmetric map of size dTime
    for name in [n_ for n_ in sym if not M[n_]["explicit"]]:
        for r in range(22 if tier == "quick" else 80):
            cases.append(dict(kind="hard_step", method=name, ham=str(rng.choice(["pendulum", "duffing", "henon_heiles", "quartic_chain"])),
                              h=float(rng.choice([-1, 1])) * float(rng.choice([0.6, 2.0, 3.0, 3.0, 5.0, 5.0])), controller=str(rng.choice(["user_fn", "user_fn", "user_fn", "own"])),
                              tol=float(rng.choice([0.0, 0.0, 1e-12])), pseed=int(rng.integers(1 << 30)), cost=20))
    for name in (["RK4Solver", "LobattoIIIA4", "EulerSolver", "RadauIIA5"] if tier == "quick" else [n for n, i in M.items() if not i["symplectic"]]):
        for r in range(1 if tier == "quick" else 2):
            cases.append(dict(kind="control", method=name, ham="pendulum", h=float(rng.uniform(0.3, 0.6)), pseed=int(rng.integers(1 << 30)), cost=4 if M[name]["explicit"] else 60))
    return cases


def _stepper(cls, rhs, n, dtype, mask=None, tol=None):
    """returns phi(y, h) -> y1 using a FRESH integrator per call (no cached state leaks between probes)."""
    import desolver as de

    def phi(y, h):
        kw = {}
        if mask is not None:
            kw["staggered_mask"] = mask
        if tol is not None:
            kw.update(rtol=tol, atol=tol)
        intg = cls((n,), dtype=dtype, **kw)
        util.passthrough_adaptation(intg)
        r = de.DiffRHS(rhs)
        _, (dT, dY) = intg(r, np.asarray(0.0, dtype=dtype), np.asarray(y, dtype=dtype), {}, np.asarray(h, dtype=dtype))
        if abs(float(dT) - float(h)) > 1e-12 * abs(h):
            raise RuntimeError("step shortened")
        return np.asarray(y, dtype=dtype) + dY
    return phi


def _jdefect(Mx, J):
    D = Mx.T @ J @ Mx - J
    return float(np.max(np.abs(D)))


def _fd_matrix(phi, y, h, delta=1e-5):
    n = len(y)
    Mx = np.zeros((n, n), dtype=y.dtype)
    for j in range(n):
        e = np.zeros(n, dtype=y.dtype)
        e[j] = delta
        Mx[:, j] = (phi(y + e, h) - phi(y - e, h)) / (2 * y.dtype.type(delta))
    return Mx


def run_case(spec):
    M = util.methods()
    info = M[spec["method"]]
    kind = spec["kind"]
    ham = Hamiltonian(spec["ham"], spec["pseed"])
    rng = rng_for(1002, spec["pseed"])
    n = 2 * ham.nd
    layout = spec.get("layout", "qp")
    rhs = ham.make_rhs(layout)
    J = ham.J(layout)
    iq, ip, mask = ham.layout(layout)
    rec = util.Rec(sig="%s|%s|%s|%s|%s|%d|%d" % (kind, spec["method"], spec["ham"], layout, spec.get("route"), 1 if spec["h"] > 0 else -1, spec["pseed"] % 13))
    feats = {"kind": kind, "method": spec["method"], "family": info["family"], "ham": spec["ham"], "layout": layout, "route": spec.get("route"), "sign": 1 if spec["h"] > 0 else -1}
    h = spec["h"]
    y = rng.uniform(0.2, 0.7, n) * rng.choice([-1, 1], n)
    if spec["ham"] == "henon_heiles":
        y = 0.3 * y     # stay well below the escape energy 1/6 (bounded orbits)
    rec.sample = {"spec": spec}
    try:
        if kind == "jtest_linear":
            dt_ = np.dtype("float64")
            tol = None if info["explicit"] else 1e-12
            phi = _stepper(info["cls"], rhs, n, dt_, tol=tol)
            Mx = np.stack([phi(np.eye(n)[j], h) for j in range(n)], axis=1).astype(np.longdouble)
            dfc = _jdefect(Mx, J.astype(np.longdouble))
            cond = float(np.linalg.cond(Mx.astype(np.float64))) * (1 + float(np.max(np.abs(Mx))) ** 2)
            unit = 200 * 2.3e-16 * cond if info["explicit"] else 30 * 1e-12 * cond
            rec.bump("jtest_linear")
            rec.nontrivial = True
            rec.worst("jtest_linear_defect_over_unit_" + ("splitting" if info["splitting"] else "implicit"), dfc / unit)
            rec.sample["defect"] = dfc
            if dfc > unit:
                rec.violate("symplectic_form", "step_matrix_does_not_preserve_J_on_quadratic_hamiltonian", feats, defect=dfc, unit=unit)
        elif kind in ("jtest_fd", "control"):
            # explicit methods: longdouble, delta 1e-5, threshold 1e-8.  Implicit methods: the extended-precision
            # nonlinear solve only reaches float64-level residuals (LAPACK), so they are probed in float64 with
            # delta 1e-4 and threshold 1e-6 (truncation ~1e-8, solver tolerance/delta ~1e-9)
            if info["explicit"]:
                dt_, delta, thr = np.dtype(np.longdouble), 1e-5, 1e-9
                phi = _stepper(info["cls"], rhs, n, dt_)
            else:
                dt_, delta, thr = np.dtype("float64"), 1e-4, 3e-7
                phi = _stepper(info["cls"], rhs, n, dt_, tol=1e-13)
            Mx = _fd_matrix(phi, y.astype(dt_), h, delta=delta).astype(np.longdouble)
            dfc = _jdefect(Mx, J.astype(np.longdouble))
            rec.nontrivial = True
            rec.sample["defect"] = dfc
            if kind == "control":
                rec.bump("controls_run")
                if dfc > 1e-7:
                    rec.bump("controls_fired")
                rec.worst("control_defect", dfc)
            else:
                rec.bump("jtest_fd")
                rec.worst("jtest_fd_defect_over_threshold", dfc / thr)
                if dfc > thr:
                    rec.violate("symplectic_form", "finite_difference_step_jacobian_does_not_preserve_J", feats, defect=dfc, threshold=thr)
        elif kind == "reverse":
            dt_ = np.dtype("float64")
            tol = None if info["explicit"] else 1e-12
            phi = _stepper(info["cls"], rhs, n, dt_, tol=tol)
            y1 = phi(y, h)
            y2 = phi(y1, -h)
            err = float(np.max(np.abs(y2 - y)))
            unit = 30 * 2.3e-16 * info["stages"] * (1 + float(np.max(np.abs(y1)))) if info["explicit"] else 30 * 1e-12 * (1 + float(np.max(np.abs(y1))))
            rec.bump("reverse_probes")
            rec.nontrivial = True
            rec.worst("reverse_error_over_unit", err / unit)
            rec.sample["return_error"] = err
            if err > unit:
                rec.violate("time_reversibility", "step_h_then_minus_h_does_not_return", feats, err=err, unit=unit)
        elif kind == "reverse_driven":
            import desolver as de
            dt_ = np.dtype("float64")
            amp, om, ph = rng.uniform(0.3, 1.0, ham.nd), rng.uniform(1.0, 4.0, ham.nd), rng.uniform(0, 6.28, ham.nd)

            def rhs_t(t, yy, **kw):
                out = np.array(rhs(t, yy), copy=True)
                out[ip] = out[ip] + (amp * np.cos(om * t + ph)).astype(out.dtype)
                return out
            tstart = float(rng.uniform(-2, 2))

            def phi_t(tt, yy, hh):
                kw = {} if info["explicit"] else dict(rtol=1e-12, atol=1e-12)
                intg = info["cls"]((n,), dtype=dt_, **kw)
                util.passthrough_adaptation(intg)
                _, (dT, dY) = intg(de.DiffRHS(rhs_t), np.asarray(tt, dtype=dt_), np.asarray(yy, dtype=dt_), {}, np.asarray(hh, dtype=dt_))
                if abs(float(dT) - float(hh)) > 1e-12 * abs(hh):
                    raise RuntimeError("step shortened")
                return float(tt) + float(dT), np.asarray(yy, dtype=dt_) + dY
            t1, y1 = phi_t(tstart, y, h)
            t2, y2 = phi_t(t1, y1, -h)
            err = float(np.max(np.abs(y2 - y)))
            unit = 30 * 2.3e-16 * info["stages"] * (1 + float(np.max(np.abs(y1)))) if info["explicit"] else 30 * 1e-12 * (1 + float(np.max(np.abs(y1))))
            rec.bump("reverse_probes_time_dependent")
            rec.nontrivial = True
            rec.worst("reverse_time_dependent_error_over_unit", err / unit)
            rec.sample["return_error"] = err
            if err > unit:
                rec.violate("time_reversibility", "step_h_then_minus_h_does_not_return_on_a_time_dependent_hamiltonian", feats, err=err, unit=unit, t=tstart)
        elif kind == "hard_step":
            return _hard_step(spec, info, ham, rhs, y, h, rec, feats, J, n)
        elif kind == "reuse":
            return _reuse(spec, info, ham, rhs, y, h, rec, feats, J, n)
        elif kind == "energy":
            return _energy(spec, info, ham, rhs, y, h, rec, feats, iq, ip)
        elif kind == "mask":
            return _mask(spec, info, ham, rhs, y, h, rec, feats, J, mask, n)
    except AttributeError as e:
        rec.violate("mask_route_broken", "AttributeError", feats, err=repr(e)[:300])
    except RuntimeError as e:
        if "step shortened" not in str(e):
            raise
        rec.skipped = "the stage iteration did not converge at the probed step (another step size was taken: not the probed map)"
    return rec.out()


def _hard_step(spec, info, ham, rhs, y, h, rec, feats, J, n):
    import desolver as de
    dt_ = np.dtype("float64")
    feats = dict(feats, controller=spec["controller"])
    r = de.DiffRHS(rhs)
    tol = spec["tol"] or None
    tol_eff = tol or 1e-9

    def any_step(y0, hh):
        kw = dict(rtol=tol, atol=tol) if tol else {}
        intg = info["cls"]((n,), dtype=dt_, **kw)
        if spec["controller"] == "user_fn":
            util.passthrough_adaptation(intg)
        from vf.instrument import StepLog
        slog_ = StepLog(intg)
        try:
            _, (dT, dY) = intg(r, np.asarray(0.0, dtype=dt_), np.asarray(y0, dtype=dt_), {}, np.asarray(hh, dtype=dt_))
        except Exception as e:
            if type(e).__name__ in ("CaseTimeout", "NoProgress"):
                raise
            return None, None          # the integrator refused the step: nothing was claimed
        last["intg"] = intg
        last["failed_attempts"] = sum(1 for a_ in slog_.attempts if a_.get("newton_ok") is False)
        return float(dT), np.asarray(y0, dtype=dt_) + np.asarray(dY)
    last = {}
    y = 3.0 * y if spec["ham"] != "henon_heiles" else 1.5 * y
    dT, y1 = any_step(y, h)
    rec.sample = {"spec": spec, "accepted_dT": dT}
    if dT is None:
        rec.bump("hard_steps_refused")
        return rec.out()
    rec.bump("hard_steps_accepted")
    if last.get("failed_attempts"):
        rec.bump("hard_steps_with_a_failed_stage_iteration")
        if spec["controller"] == "user_fn":
            rec.bump("hard_steps_with_a_failed_stage_iteration_under_user_fn")
    if abs(dT) < abs(h):
        rec.bump("hard_steps_shortened")
    rec.nontrivial = True
    # (0) whatever is handed back is a step of the SCHEME: the stage slopes the integrator holds satisfy the stage equations of size dT
    intg0 = last["intg"]
    A = np.asarray(info["cls"].tableau_intermediate, dtype=np.longdouble)
    Kst = np.asarray(intg0.stage_values, dtype=np.longdouble)
    yl = np.asarray(y, dtype=np.longdouble)
    res = 0.0
    for i_ in range(A.shape[0]):
        ki = np.asarray(rhs(0.0, yl + np.longdouble(dT) * (Kst @ A[i_, 1:])), dtype=np.longdouble)
        res = max(res, float(np.max(np.abs(Kst[:, i_] - ki))))
    stated = 0.5 * (float(intg0.atol) + float(intg0.rtol) * float(np.max(np.abs(y)))) / max(abs(dT), 1.0)
    unit_r = 20 * stated + 1e-12 * (1 + float(np.max(np.abs(Kst))))
    rec.bump("hard_stage_residual_checks")
    rec.worst("hard_stage_residual_over_unit", res / unit_r)
    if not np.isfinite(res) or res > unit_r:
        rec.violate("symplectic_form", "accepted_long_step_is_not_a_step_of_the_scheme", feats, stage_residual=res, unit=unit_r, dT=dT)
        return rec.out()
    # for steps this long the stage equations may have several solutions: the round trip and the finite-difference Jacobian are only meaningful
    # where the solution is unique (|dT| * Lipschitz constant * max row sum of |A| < 0.8)
    def lip_at(yy):
        Jf = np.zeros((n, n))
        for j_ in range(n):
            e_ = np.zeros(n)
            e_[j_] = 1e-6
            Jf[:, j_] = (np.asarray(rhs(0.0, yy + e_)) - np.asarray(rhs(0.0, yy - e_))) / 2e-6
        return float(np.linalg.norm(Jf, 2))
    kappa = abs(dT) * max(lip_at(np.asarray(y, dtype=np.float64)), lip_at(np.asarray(y1, dtype=np.float64))) * float(np.max(np.sum(np.abs(A[:, 1:]), axis=1)))
    if kappa >= 0.8:
        rec.bump("hard_steps_outside_the_unique_solution_regime")
        return rec.out()
    # the Jacobian of the map of size dT by central differences (neighbours advanced by another step size are not the same map: skipped)
    delta = 1e-4
    Mx = np.zeros((n, n))
    ok = True
    for j in range(n):
        e = np.zeros(n)
        e[j] = delta
        dp, yp = any_step(y + e, dT)
        dm, ym = any_step(y - e, dT)
        if dp is None or dm is None or dp != dT or dm != dT:
            ok = False
            break
        Mx[:, j] = (yp - ym) / (2 * delta)
    if not ok:
        rec.bump("hard_steps_neighbours_took_other_steps")
        return rec.out()
    mmax = float(np.max(np.abs(Mx)))
    if not np.isfinite(mmax) or mmax > 30.0:
        # a strongly expansive (or multi-valued) step map: neither a finite-difference Jacobian nor a round trip at solver tolerance says anything
        rec.bump("hard_steps_map_too_expansive_to_judge")
        return rec.out()
    # (a) symmetric scheme: the step of -dT from the end point returns
    dT2, y2 = any_step(y1, -dT)
    if dT2 is not None and dT2 == -dT:
        rec.bump("hard_reverse_probes")
        err = float(np.max(np.abs(y2 - y)))
        unit = 1e3 * tol_eff * (1 + float(np.max(np.abs(y1)))) * (1 + mmax)
        rec.worst("hard_reverse_error_over_unit", err / unit)
        if err > unit:
            rec.violate("time_reversibility", "accepted_long_step_then_minus_step_does_not_return", feats, err=err, unit=unit, dT=dT)
    # (b) the Jacobian of the map preserves J
    rec.bump("hard_jtest_probes")
    dfc = _jdefect(Mx.astype(np.longdouble), J.astype(np.longdouble))
    thr = 3e-6 * (1 + mmax) ** 2 + 1e2 * tol_eff / delta * (1 + mmax)
    rec.worst("hard_jtest_defect_over_threshold", dfc / thr)
    if dfc > thr:
        rec.violate("symplectic_form", "jacobian_of_an_accepted_long_step_does_not_preserve_J", feats, defect=dfc, threshold=thr, dT=dT, jac_max=mmax)
    return rec.out()


def _reuse(spec, info, ham, rhs, y, h, rec, feats, J, n):
    import desolver as de
    dt_ = np.dtype("float64")
    rng = rng_for(1003, spec["pseed"])
    kw = {} if info["explicit"] else dict(rtol=1e-12, atol=1e-12)
    shared = info["cls"]((n,), dtype=dt_, **kw)
    util.passthrough_adaptation(shared)
    r = de.DiffRHS(rhs)
    fresh = _stepper(info["cls"], rhs, n, dt_, tol=None if info["explicit"] else 1e-12)
    t0 = np.asarray(0.3, dtype=dt_)
    worst = 0.0
    for i in range(5):
        yi = (y * (1 + 0.2 * rng.standard_normal(n))).astype(dt_)
        _, (dT, dY) = shared(r, t0, yi, {}, np.asarray(h, dtype=dt_))
        if float(dT) != float(h):
            rec.bump("reuse_step_shortened")
            break
        y1 = yi + dY
        ref = fresh(yi, h)
        unit = 1e3 * 2.3e-16 * (1 + float(np.max(np.abs(ref)))) if info["explicit"] else 1e3 * 1e-12 * (1 + float(np.max(np.abs(ref))))
        err = float(np.max(np.abs(y1 - ref)))
        worst = max(worst, err / unit)
        rec.bump("reuse_probes")
        if err > unit:
            rec.violate("history_dependent_step_map", "step_of_a_reused_integrator_differs_from_a_fresh_one", dict(feats, probe=i), err=err, unit=unit)
            break
        # step back to the same time with -h: the next probe starts at t0 again from a different state
        _, (dT2, dY2) = shared(r, np.asarray(t0 + dT, dtype=dt_), y1, {}, np.asarray(-h, dtype=dt_))
        if float(dT2) != -float(dT):
            rec.bump("reuse_back_step_shortened")      # the stage iteration of the way back did not converge at -h: another map, nothing to compare
            break
        back = float(np.max(np.abs(y1 + dY2 - yi)))
        if back > unit * 10:
            rec.violate("time_reversibility", "step_h_then_minus_h_does_not_return", dict(feats, probe=i, reused=True), err=back, unit=unit * 10)
            break
        # the object now sits at (t0, ~yi): a step from the SAME time but a NEARBY, different state (what a finite-difference Jacobian or a shadow
        # trajectory on one object does) must be the step of that state, not of the one the object remembers
        for delta_ in (1e-6, 1e-9, 1e-12):
            yn = yi.copy()
            yn[int(rng.integers(n))] += delta_
            _, (dT3, dY3) = shared(r, t0, yn, {}, np.asarray(h, dtype=dt_))
            if float(dT3) != float(h):
                break
            ref3 = fresh(yn, h)
            err3 = float(np.max(np.abs(yn + dY3 - ref3)))
            rec.bump("reuse_nearby_state_probes")
            worst = max(worst, err3 / unit)
            if err3 > unit:
                rec.violate("history_dependent_step_map", "step_from_a_nearby_state_at_the_remembered_time_differs_from_a_fresh_one", dict(feats, probe=i, delta=delta_), err=err3, unit=unit)
                break
            # ... and back again, so that the next probe meets the same situation
            _, (dT4, dY4) = shared(r, np.asarray(t0 + dT3, dtype=dt_), yn + dY3, {}, np.asarray(-h, dtype=dt_))
            if float(dT4) != -float(dT3):
                break
    rec.nontrivial = True
    rec.worst("reuse_error_over_unit", worst)
    rec.sample = {"spec": spec, "worst_error_over_unit": worst}
    return rec.out()


def _energy(spec, info, ham, rhs, y, h, rec, feats, iq, ip):
    N = 3000
    system = sysrun.make_system(lambda t, yy, **k: rhs(t, yy), y.astype(np.float64), 0.0, h * N, h, info["cls"], rtol=1e-11, atol=1e-11)

    def keep_dt(s):
        s.dt = h     # implicit 'fixed-step' methods grow their step (KF06); pin it so that the run really is fixed-step
    seg = sysrun.call_integrate(system, callback=keep_dt, max_steps=4 * N)
    if seg["raised"]:
        rec.violate("energy_run_raised", type(getattr(seg["exc"], "__cause__", None) or seg["exc"]).__name__, feats, err=repr(getattr(seg["exc"], "__cause__", None))[:200])
        return rec.out()
    Y = np.asarray(system.y)
    H = np.array([ham.H(Y[k][iq], Y[k][ip]) for k in range(len(Y))])
    dH = np.abs(H - H[0])
    third = len(dH) // 3
    first, last = float(np.max(dH[1:third])), float(np.max(dH[-third:]))
    floor = 1e-11 * (1 + abs(H[0]))
    rec.bump("energy_runs")
    rec.nontrivial = len(Y) > 1000
    rec.worst("energy_last_over_first_third", last / (first + floor))
    rec.sample = {"spec": spec, "rows": len(Y), "dH_first_third": first, "dH_last_third": last}
    if last > 3 * first + floor:
        rec.violate("energy_drift", "energy_error_grows_secularly", feats, first_third=first, last_third=last, rows=len(Y))
    return rec.out()


def _mask(spec, info, ham, rhs, y, h, rec, feats, J, mask, n):
    """the mask is supplied through a public route; the J-test is applied to the step actually taken."""
    import desolver as de
    route = spec["route"]
    dt_ = np.dtype(np.longdouble)
    mt = spec.get("mask_type", "bool")
    feats = dict(feats, mask_type=mt)
    bool_mask = mask

    class _M:
        @staticmethod
        def copy():
            if mt == "int":
                return bool_mask.astype(np.int64)
            if mt == "list_int":
                return [int(x) for x in bool_mask]
            if mt == "list_bool":
                return [bool(x) for x in bool_mask]
            return bool_mask.copy()
    mask = _M

    def one_step(y0, hh):
        if route == "constructor":
            intg = info["cls"]((n,), dtype=dt_, staggered_mask=mask.copy())
            r = de.DiffRHS(lambda t, yy, **k: rhs(t, yy))
            _, (dT, dY) = intg(r, np.asarray(0.0, dtype=dt_), y0.astype(dt_), {}, np.asarray(hh, dtype=dt_))
            return y0.astype(dt_) + dY
        system = de.OdeSystem(lambda t, yy, **k: rhs(t, yy), y0=y0.astype(dt_), t=(0.0, hh), dt=hh)
        import warnings
        with warnings.catch_warnings():
            warnings.simplefilter("ignore")
            if route == "set_method":
                system.set_method(info["cls"], staggered_mask=mask.copy())
            elif route == "method_change":
                # the mask is given while ANOTHER splitting scheme is selected; the scheme is changed afterwards without repeating it
                other = util.methods()[SPLIT[(SPLIT.index(spec["method"]) + 1 + spec["pseed"] % 2) % len(SPLIT)]]["cls"]
                if spec["pseed"] % 3 == 0:
                    system.set_method(other, staggered_mask=mask.copy())
                else:
                    system.method = other
                    system.set_kick_vars(mask.copy())
                if spec["pseed"] % 5 < 2:
                    system.set_method(info["cls"])
                else:
                    system.method = info["cls"]
            else:
                system.method = info["cls"]
                system.set_kick_vars(mask.copy())
        system.integrate()
        if len(system) != 2:
            raise RuntimeError("expected exactly one step, got %d rows" % len(system))
        return np.asarray(system.y[-1], dtype=dt_)
    Mx = _fd_matrix(one_step, y.astype(np.longdouble), h)
    dfc = _jdefect(Mx, J.astype(np.longdouble))
    rec.bump("mask_probes")
    rec.nontrivial = True
    rec.worst("mask_jtest_defect", dfc)
    rec.sample = {"spec": spec, "defect": dfc}
    if dfc > 1e-8:
        rec.violate("symplectic_form", "kick_mask_not_honoured", feats, defect=dfc, threshold=1e-8)
    return rec.out()
