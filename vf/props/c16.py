"""C16 - Jacobians are the true derivative, from the user's function when one is given."""
import numpy as np

from vf import util
from vf.problems import rng_for

LEVEL = "exploration"
RULE = ("kinds: fd (JacobianWrapper on random smooth f: R^n -> R^m with arbitrary array shapes, points with components near 0 and large, base orders 2..7: "
        "shape (*f.shape,*x.shape), entry [i..,j..] = d f_i / d x_j, error vs analytic Jacobian; linear maps to rounding), wrapper (histories of "
        "jac(t,y) / hook / unhook / attribute / assignment on DiffRHS with a time-dependent right-hand side: a user Jacobian is returned whenever attached "
        "(sentinel values), otherwise the derivative at the REQUESTED (t,y)); non-trivial = >=1 Jacobian compared; distinct by (kind, shapes, base order, seed / history)")
ASSUMPTIONS = ["finite-difference accuracy threshold: 1e-8*(|J|max+1) for smooth maps, 1e4*eps*|A|*n*(1+|x|) for linear maps, 1e-7*(|J|max+1) through DiffRHS (worst observed ratios in evidence)"]
RULE += " Strata added in the fourth seeding round: Wrappers built through rhs_prettifier (Jacobian attribute set before wrapping) and user wrappers handed to solve_ivp with and without args."
FLOORS = {"quick": {"fd_jacobians": 200, "fd_linear": 40, "nonsquare_or_matrix_shaped": 80, "wrapper_histories": 100, "wrapper_jac_calls": 400, "unhook_then_jac": 40, "repeated_time_calls": 60, "system_histories": 25, "system_runs_with_user_jacobian": 35, "system_runs_from_a_fresh_integrator": 25, "system_direct_requests": 90, "wrapper_histories_through_the_prettifier": 40, "facade_runs_with_user_jacobian": 18},
          "thorough": {"fd_jacobians": 2000, "fd_linear": 400, "nonsquare_or_matrix_shaped": 800, "wrapper_histories": 1000, "wrapper_jac_calls": 5000, "unhook_then_jac": 400, "repeated_time_calls": 600, "system_histories": 250, "system_runs_with_user_jacobian": 500, "system_runs_from_a_fresh_integrator": 300, "system_direct_requests": 900, "wrapper_histories_through_the_prettifier": 400, "facade_runs_with_user_jacobian": 120}}
SHAPES_X = [(1,), (2,), (3,), (5,), (2, 2), (2, 3), (3, 1)]
SHAPES_F = [(1,), (2,), (4,), (3,), (2, 2), (3, 2), (1, 3)]


class SmoothMap:
    def __init__(self, xshape, fshape, seed, linear=False):
        rng = rng_for(1601, seed)
        self.xs, self.fs = tuple(xshape), tuple(fshape)
        n, m = int(np.prod(xshape)), int(np.prod(fshape))
        self.A = rng.uniform(-1, 1, (m, m))
        self.B = rng.uniform(-1, 1, (m, n))
        self.c = rng.uniform(-1, 1, m)
        self.D = rng.uniform(-2, 2, (m, n))
        self.linear = linear
        self.mixed = (seed % 3 == 0) and m >= 2
        self.sgn = -1.0 if (seed // 3) % 2 else 1.0
        self.ncalls = 0

    def __call__(self, x, **kw):
        self.ncalls += 1
        xf = np.asarray(x).reshape(-1)
        if self.linear:
            return (self.D @ xf).reshape(self.fs)
        out = self.A @ np.sin(self.B @ xf + self.c) + self.D @ xf
        if self.mixed:      # ONE nonlinear output depending on x[0] only; all others purely linear (their finite differences converge at
            # once, and the remaining corrections all have one sign): sign flipped for every other seed
            lin = self.D @ xf
            nl = self.A[-1, -1] * np.sin(self.B[-1, 0] * xf[0] + self.c[-1]) + lin[-1]
            out = lin.copy()
            out[-1] = nl
            out = self.sgn * out
        return out.reshape(self.fs)

    def jac(self, x):
        xf = np.asarray(x, dtype=np.longdouble).reshape(-1)
        if self.linear:
            J = self.D.astype(np.longdouble)
        else:
            J = self.A.astype(np.longdouble) @ (np.cos(self.B.astype(np.longdouble) @ xf + self.c)[:, None] * self.B) + self.D
            if self.mixed:
                J = self.D.astype(np.longdouble).copy()
                J[-1, 0] = J[-1, 0] + np.longdouble(self.A[-1, -1]) * np.cos(np.longdouble(self.B[-1, 0]) * xf[0] + self.c[-1]) * self.B[-1, 0]
                J = self.sgn * J
        return J.reshape(self.fs + self.xs)


def gen_cases(tier, seed):
    rng = rng_for(1602, seed)
    cases = []
    for i in range(260 if tier == "quick" else 2600):
        xs = SHAPES_X[int(rng.integers(len(SHAPES_X)))]
        fs = SHAPES_F[int(rng.integers(len(SHAPES_F)))]
        cases.append(dict(kind="fd", xshape=list(xs), fshape=list(fs), base_order=int(rng.integers(2, 8)), linear=bool(rng.random() < 0.18),
                          point=str(rng.choice(["unit", "near_zero", "large", "mixed"])), flat=bool(rng.random() < 0.2), pseed=int(rng.integers(1 << 30)), cost=1 + int(np.prod(xs))))
    for i in range(130 if tier == "quick" else 1300):
        n = int(rng.integers(3, 11))
        hist = []
        for j in range(n):
            r = rng.random()
            if r < 0.5:
                hist.append(["jac", int(rng.integers(0, 4))])     # index into a small set of times => repeats happen
            elif r < 0.62:
                hist.append(["hook"])
            elif r < 0.74:
                hist.append(["unhook"])
            elif r < 0.84:
                hist.append(["assign"])
            else:
                hist.append(["call"])
        hist.append(["unhook"])
        hist.append(["jac", int(rng.integers(0, 4))])
        hist.append(["jac", int(rng.integers(0, 4))])
        cases.append(dict(kind="wrapper", ctor=["DiffRHS", "prettifier_call", "DiffRHS", "prettifier_kw"][len(cases) % 4], attr=bool(rng.random() < (0.25 if len(cases) % 2 == 0 else 0.6)), shape=[int(x) for x in SHAPES_X[int(rng.integers(len(SHAPES_X)))]], hist=hist, pseed=int(rng.integers(1 << 30)), cost=3))
    # the wrapper as it lives inside an OdeSystem: a user Jacobian attached by attribute / hook / assignment stays the one that is used across
    # the system's life-cycle operations (runs, reset, change of method or tolerances, continuation)
    for i in range(30 if tier == "quick" else 300):
        ops = [str(x) for x in rng.choice(["reset", "set_method", "set_tol", "partial", "run", "reset"], size=int(rng.integers(2, 5)))]
        cases.append(dict(kind="system", route=["attr", "hook", "assign"][i % 3], method=str(rng.choice(["RadauIIA5", "BackwardEuler", "GaussLegendre4", "CrankNicolson", "LobattoIIIC4"])),
                          ops=["run"] + ops + ["run"], pseed=int(rng.integers(1 << 30)), cost=6))
    rngf = rng_for(1607, seed)
    for i in range(24 if tier == "quick" else 160):
        cases.append(dict(kind="system", facade=["args", "plain"][i % 2], wrap=["DiffRHS", "prettifier"][(i // 2) % 2], route=["hook", "assign", "attr"][i % 3],
                          method=str(rngf.choice(["RadauIIA5", "BackwardEuler", "GaussLegendre4", "CrankNicolson", "LobattoIIIC4"])),
                          ops=[str(x) for x in rngf.choice(["run", "partial", "set_tol"], size=2)] + ["run"], pseed=int(rngf.integers(1 << 30)), cost=6))
    return cases


def _system(spec):
    import desolver as de
    from vf import sysrun
    M = util.methods()
    shape = (3,)
    f = TimeRHS(shape, spec["pseed"], omega=0.9, tref=0.0)
    f.M1 = f.M1 - 1.5 * np.eye(3)      # mildly dissipative: implicit runs stay tame
    calls = {"n": 0}

    def uj(t, y, **kw):
        calls["n"] += 1
        return np.asarray(f.true_jac(t, y), dtype=np.float64)
    rec = util.Rec(sig="system|%s|%s|%s|%d" % (spec["route"], spec["method"], "".join(o[0] + o[-1] for o in spec["ops"]), spec["pseed"] % 101))
    feats = {"kind": "system", "route": spec["route"], "method": spec["method"]}
    t0, tf = 0.0, 1.5
    y0 = rng_for(1606, spec["pseed"]).uniform(-1, 1, shape)
    if spec.get("facade"):
        # the functional facade is handed the user's WRAPPER (Jacobian attached to it by hook or assignment, or to the function by attribute),
        # with or without an args tuple: the system it builds must use that Jacobian
        def fa(t, y, a, b):
            return a * f(t, y) + (b - 0.5) * y

        def fplain(t, y, **kw):
            return f(t, y)
        target = fa if spec["facade"] == "args" else fplain
        if spec["route"] == "attr":
            target.jac = uj
        W = de.DiffRHS(target) if spec.get("wrap", "DiffRHS") == "DiffRHS" else de.rhs_prettifier(equ_repr="f", md_repr="f")(target)
        if spec["route"] == "hook":
            W.hook_jacobian_call(uj)
        elif spec["route"] == "assign":
            W.jac = uj
        feats["facade"] = spec["facade"]
        kwf = dict(args=(1.0, 0.5)) if spec["facade"] == "args" else {}
        try:
            res = de.solve_ivp(W, (t0, t0 + 0.3 * (tf - t0)), y0, method=M[spec["method"]]["cls"], first_step=0.1, rtol=1e-6, atol=1e-8, **kwf)
        except Exception as e:
            if type(e).__name__ in ("CaseTimeout", "NoProgress") or type(getattr(e, "__cause__", None)).__name__ in ("CaseTimeout", "NoProgress"):
                raise
            rec.violate("jacobian_history_raised", type(e).__name__, dict(feats, op="solve_ivp"), err=repr(e)[:200])
            return rec.out()
        system = res.ode_system
        rec.bump("facade_runs_with_user_jacobian")
        if calls["n"] == 0:
            rec.violate("user_jacobian_ignored", "implicit_run_never_called_the_attached_user_jacobian", dict(feats, op="solve_ivp"), user_calls=0, njev=int(system.njev))
        spec = dict(spec, ops=[o for o in spec["ops"] if o != "reset"] or ["run"])
    else:
        if spec["route"] == "attr":
            f.jac = uj
        system = sysrun.make_system(f, y0, t0, tf, 0.1, M[spec["method"]]["cls"], rtol=1e-6, atol=1e-8)
        if spec["route"] == "hook":
            system.equ_rhs.hook_jacobian_call(uj)
        elif spec["route"] == "assign":
            system.equ_rhs.jac = uj
    others = [m for m in ("RadauIIA5", "BackwardEuler", "CrankNicolson", "LobattoIIIC4") if m != spec["method"]]
    rec.bump("system_histories")
    for k, op in enumerate(spec["ops"]):
        f2 = dict(feats, op=op, after=spec["ops"][k - 1] if k else None)
        n0 = calls["n"]
        try:
            if op == "run":
                seg = sysrun.call_integrate(system, max_steps=5000)
                stepped = seg["i1"] > seg["i0"]
            elif op == "partial":
                here = float(system.t[-1])
                seg = sysrun.call_integrate(system, t=here + 0.4 * (tf - here), max_steps=5000)
                stepped = seg["i1"] > seg["i0"]
            elif op == "reset":
                system.reset()
                stepped = False
            elif op == "set_method":
                system.method = M[others[(spec["pseed"] + k) % len(others)]]["cls"]
                stepped = False
            elif op == "set_tol":
                system.rtol = 3e-6
                system.atol = 3e-8
                stepped = False
        except Exception as e:
            if type(e).__name__ in ("CaseTimeout", "NoProgress") or type(getattr(e, "__cause__", None)).__name__ in ("CaseTimeout", "NoProgress"):
                raise
            rec.violate("jacobian_history_raised", type(e).__name__, f2, err=repr(e)[:200])
            break
        if op in ("run", "partial") and stepped:
            rec.bump("system_runs_with_user_jacobian")
            rec.nontrivial = True
            fresh_integrator = (k == 0 and not spec.get("facade")) or (k > 0 and spec["ops"][k - 1] in ("reset", "set_method"))      # (the facade's system has run already)
            if fresh_integrator:
                rec.bump("system_runs_from_a_fresh_integrator")
            # (a continued run may keep working with the Jacobian it already holds: a new request is only certain after the integrator was rebuilt)
            if calls["n"] == n0 and fresh_integrator:
                rec.violate("user_jacobian_ignored", "implicit_run_never_called_the_attached_user_jacobian", f2, user_calls=calls["n"], njev=int(system.njev))
        # a direct request through the system's wrapper must be answered by the user's function, whatever happened before
        tq = float(system.t[-1])
        yq = np.asarray(system.y[-1])
        n1 = calls["n"]
        J = np.asarray(system.equ_rhs.jac(tq, yq, **dict(system.constants)))
        rec.bump("system_direct_requests")
        if calls["n"] != n1 + 1 or not np.array_equal(J, np.asarray(f.true_jac(tq, yq), dtype=np.float64)):
            rec.violate("user_jacobian_ignored", "attached_user_jacobian_not_returned", f2, user_called=bool(calls["n"] == n1 + 1), step=k)
            break
    rec.sample = {"spec": spec, "user_jacobian_calls": calls["n"]}
    return rec.out()


def run_case(spec):
    if spec["kind"] == "fd":
        return _fd(spec)
    if spec["kind"] == "system":
        return _system(spec)
    return _wrapper(spec)


def _point(rng, shape, kind):
    n = int(np.prod(shape))
    if kind == "unit":
        x = rng.uniform(-1, 1, n)
    elif kind == "near_zero":
        x = rng.uniform(-1, 1, n) * 1e-9
        x[int(rng.integers(n))] = 0.0
    elif kind == "large":
        x = rng.uniform(-1, 1, n) * 50.0
    else:
        x = rng.uniform(-1, 1, n) * 10 ** rng.uniform(-8, 1.5, n)
    return x.reshape(shape)


def _fd(spec):
    from desolver.utilities import JacobianWrapper
    rng = rng_for(1603, spec["pseed"])
    xs, fs = tuple(spec["xshape"]), tuple(spec["fshape"])
    f = SmoothMap(xs, fs, spec["pseed"], linear=spec["linear"])
    x = _point(rng, xs, spec["point"])
    rec = util.Rec(sig="fd|%s|%s|%d|%s|%s|%d" % (xs, fs, spec["base_order"], spec["linear"], spec["point"], spec["pseed"] % 101))
    feats = {"kind": "fd", "base_order": spec["base_order"], "linear": spec["linear"], "point": spec["point"], "flat": spec["flat"]}
    W = JacobianWrapper(f, base_order=spec["base_order"], flat=spec["flat"])
    J = np.asarray(W(x))
    Jt = f.jac(x)
    rec.bump("fd_jacobians")
    if spec["linear"]:
        rec.bump("fd_linear")
    if len(xs) > 1 or len(fs) > 1 or int(np.prod(xs)) != int(np.prod(fs)):
        rec.bump("nonsquare_or_matrix_shaped")
    rec.nontrivial = True
    n, m = int(np.prod(xs)), int(np.prod(fs))
    if spec["flat"]:
        want_shape = (m, n)
        if (m, n) == (1, 1):
            want_shape = ()
        Jt_cmp = Jt.reshape(m, n) if want_shape != () else Jt.reshape(())
    else:
        want_shape = fs + xs
        Jt_cmp = Jt
    if J.shape != want_shape:
        rec.violate("jacobian_shape", "shape_is_not_output_shape_followed_by_input_shape", feats, got=list(J.shape), want=list(want_shape))
        return rec.out()
    err = float(np.max(np.abs(J.astype(np.longdouble) - Jt_cmp)))
    Jmax = float(np.max(np.abs(Jt)))
    if spec["linear"]:
        unit = 1e4 * 2.3e-16 * (Jmax + 1e-300) * n * (1 + float(np.max(np.abs(x))))
        key = "fd_linear_error_over_unit"
    else:
        unit = 1e-8 * (Jmax + 1.0)
        key = "fd_error_over_unit"
    rec.worst(key, err / unit)
    rec.sample = {"spec": spec, "err": err, "Jmax": Jmax, "rhs_evaluations": f.ncalls}
    if err > unit:
        # attribution: transposed layout?
        mech = "finite_difference_jacobian_inaccurate"
        if not spec["flat"] and len(fs) == 1 and len(xs) == 1 and fs == xs:
            if float(np.max(np.abs(J.T.astype(np.longdouble) - Jt_cmp))) <= unit:
                mech = "jacobian_transposed"
        rec.violate("jacobian_value", mech, feats, err=err, unit=unit, x=x)
    return rec.out()


class TimeRHS:
    """time-dependent right-hand side with analytic Jacobian; the time dependence varies by O(1) over the spread of the times used
    (omega, tref), so that differentiating at a neighbouring cached time is visible whatever the time scale is."""

    def __init__(self, shape, seed, omega=1.0, tref=0.0):
        rng = rng_for(1604, seed)
        self.shape = tuple(shape)
        n = int(np.prod(shape))
        self.M1 = rng.uniform(-1, 1, (n, n))
        self.M2 = rng.uniform(-1, 1, (n, n))
        self.omega, self.tref = float(omega), float(tref)
        self.calls = 0

    def __call__(self, t, y, **kw):
        self.calls += 1
        yf = np.asarray(y).reshape(-1)
        ph = self.omega * (t - self.tref)
        return (np.sin(ph) * (self.M1 @ yf) + (1.5 + np.cos(ph)) * np.tanh(self.M2 @ yf)).reshape(self.shape)

    def true_jac(self, t, y):
        yf = np.asarray(y, dtype=np.longdouble).reshape(-1)
        th = np.tanh(self.M2.astype(np.longdouble) @ yf)
        ph = np.longdouble(self.omega) * (np.longdouble(t) - np.longdouble(self.tref))
        J = np.sin(ph) * self.M1 + (1.5 + np.cos(ph)) * ((1 - th ** 2)[:, None] * self.M2)
        return J.reshape(self.shape + self.shape)


def _wrapper(spec):
    import desolver as de
    rng = rng_for(1605, spec["pseed"])
    shape = tuple(spec["shape"])
    tsets = [[0.0, 0.7, -1.3, 2.1], [0.0, 3e-9, 7e-9, -2e-9], [1.0e3, 1.0e3 + 0.004, 1.0e3 - 0.007, 1.0e3 + 0.0095], [1.7e9, 1.7e9 + 1000.0, 1.7e9 - 5000.0, 1.7e9 + 16000.0]]
    times = tsets[spec["pseed"] % 4]
    spread = max(times) - min(times)
    f = TimeRHS(shape, spec["pseed"], omega=2.3 / spread, tref=times[0])
    n = int(np.prod(shape))
    SENT = {"attr": 111.0, "hook": 222.0, "assign": 333.0}
    user_calls = {"attr": 0, "hook": 0, "assign": 0}

    def mk(tag):
        def user_jac(t, y, **kw):
            user_calls[tag] += 1
            return np.full(shape + shape, SENT[tag]) + np.asarray(t)
        return user_jac
    ctor = spec.get("ctor", "DiffRHS")
    if ctor == "DiffRHS":
        if spec["attr"]:
            f.jac = mk("attr")
        W = de.DiffRHS(f)
    else:
        # a plain function (with the Jacobian as attribute BEFORE it is wrapped, when the case says so) wrapped by the prettifier, in its
        # call form rhs_prettifier(...)(fn) or through DiffRHS with representations
        def fn(t, y, **kw):
            """user right-hand side"""
            return f(t, y, **kw)
        if spec["attr"]:
            fn.jac = mk("attr")
        fn.note = "user attribute"
        W = de.rhs_prettifier(equ_repr="dy = f(t, y)", md_repr="$f$")(fn) if ctor == "prettifier_call" else de.DiffRHS(fn, equ_repr="dy = f(t, y)", md_repr="$f$")
    rec = util.Rec(sig="wrapper|%s|%s|%s|%s" % (spec["attr"], shape, "".join(h[0][0] + (str(h[1]) if len(h) > 1 else "") for h in spec["hist"]), ctor))
    feats = {"kind": "wrapper", "attr": spec["attr"], "time_set": spec["pseed"] % 4, "ctor": ctor}
    if ctor != "DiffRHS":
        rec.bump("wrapper_histories_through_the_prettifier")
    rec.bump("wrapper_histories")
    attached = "attr" if spec["attr"] else None
    last_unhook = False
    seen_times = set()
    for step, op in enumerate(spec["hist"]):
        name = op[0]
        f2 = dict(feats, op=name, attached=attached)
        try:
            if name == "hook":
                W.hook_jacobian_call(mk("hook"))
                attached = "hook"
                last_unhook = False
            elif name == "assign":
                W.jac = mk("assign")
                attached = "assign"
                last_unhook = False
            elif name == "unhook":
                W.unhook_jacobian_call()
                # the documented behaviour: "On next call to `jac` this will be reinitialised" (to rhs.jac if the function has one)
                attached = "attr" if spec["attr"] else None
                last_unhook = True
            elif name == "call":
                y = rng.uniform(-1, 1, shape)
                W(times[int(rng.integers(4))], y)
            elif name == "jac":
                t = times[op[1]]
                y = rng.uniform(-1, 1, shape)
                nj0 = W.njev
                J = np.asarray(W.jac(t, y))
                rec.bump("wrapper_jac_calls")
                rec.nontrivial = True
                if last_unhook:
                    rec.bump("unhook_then_jac")
                if t in seen_times:
                    rec.bump("repeated_time_calls")
                seen_times.add(t)
                last_unhook = False
                if W.njev != nj0 + 1:
                    rec.violate("jacobian_counter", "njev_not_incremented_by_one_per_request", f2, before=nj0, after=W.njev)
                if attached is not None:
                    want = SENT[attached] + t
                    if J.shape != shape + shape or not np.all(J == want):
                        rec.violate("user_jacobian_ignored", "attached_user_jacobian_not_returned", f2, want=want, got_first=float(J.reshape(-1)[0]) if J.size else None, step=step)
                else:
                    Jt = f.true_jac(t, y)
                    if J.shape != shape + shape:
                        rec.violate("jacobian_shape", "wrapper_jacobian_shape", f2, got=list(J.shape), want=list(shape + shape))
                    else:
                        err = float(np.max(np.abs(J.astype(np.longdouble) - Jt)))
                        unit = 1e-9 * (float(np.max(np.abs(Jt))) + 1.0)
                        rec.worst("wrapper_fd_error_over_unit", err / unit)
                        if err > unit:
                            # attribution: evaluated at a cached time?
                            mech = "derivative_inaccurate_at_requested_point"
                            for tc in times:
                                if tc != t and float(np.max(np.abs(J.astype(np.longdouble) - f.true_jac(tc, y)))) <= unit:
                                    mech = "derivative_taken_at_a_cached_time"
                            rec.violate("jacobian_value", mech, f2, err=err, unit=unit, t=t, step=step)
        except Exception as e:
            rec.violate("jacobian_history_raised", type(e).__name__, dict(f2, after_unhook=bool(last_unhook)), err=repr(e)[:200], step=step, hist=spec["hist"][:step + 1])
            break
    rec.sample = {"spec": spec, "user_calls": user_calls, "rhs_calls": f.calls}
    return rec.out()
