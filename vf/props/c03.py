"""C03 - integration covers exactly the requested span, in order (segment invariants at quiescent points)."""
import numpy as np

from vf import util, sysrun
from vf.problems import Manufactured, Clocked, QuietBump, dtype_of, rng_for
from vf.instrument import ReachMarkers

LEVEL = "exploration"
RULE = ("one case = (method, dtype, span sign pattern, initial-dt class and sign, call history); each integrate() call is observed at "
        "return: first time = time before the call (bit-equal), strictly monotone toward the target, no overshoot, last time within "
        "64 eps of the target, equal lengths, first row = y0 bit-equal, finite, dtype preserved, CLOCK component pairs rows with times; "
        "non-trivial = >=3 rows recorded by a call that returned; distinct by (method,dtype,span,dt class,history)")
ASSUMPTIONS = ["dt is at least 64 ulp of the largest time in the span (otherwise time cannot advance in that precision)",
               "a run exceeding its logical step budget (20x the expected step count) is a violation of 'ends at the target' (bounded progress)"]
RULE += " Strata added in the fourth seeding round: Right-hand sides defined on part of the state space (long trial steps with NaN error estimates) and an idle component under a purely relative tolerance: success implies finite, accurate rows."
FLOORS = {"quick": {"calls_checked": 150, "backward_calls": 40, "mixed_sign_calls": 30, "dt_gt_span_calls": 20, "buffer_growth_runs": 2, "reversal_calls": 5, "closing_rejection_calls": 8, "calls_after_tf_change": 15, "noop_calls": 3, "calls_with_a_long_closing_step_far_from_the_origin": 90, "restricted_domain_calls": 20},
          "thorough": {"calls_checked": 1500, "backward_calls": 400, "mixed_sign_calls": 300, "dt_gt_span_calls": 120, "buffer_growth_runs": 8, "reversal_calls": 50, "closing_rejection_calls": 8, "calls_after_tf_change": 150, "noop_calls": 30, "calls_with_a_long_closing_step_far_from_the_origin": 150, "restricted_domain_calls": 80}}
SPANS = [(0.0, 2.0), (-5.0, 1.0), (-10.0, -5.0), (10.0, 5.0), (1.0, -5.0), (3.0, -3.0), (0.0, -2.0), (-2.0, 0.0),
         (1e6, 1e6 + 1.0), (-1e6, -1e6 - 1.0), (-0.5, 0.25), (7.0, 7.5)]
QUICK_METHODS = ["RK45CKSolver", "DOPRI45", "RK4Solver", "EulerSolver", "HeunEulerSolver", "RK8713MSolver", "ABAs5o6HSolver",
                 "SymplecticEulerSolver", "BackwardEuler", "RadauIIA5", "GaussLegendre4", "CrankNicolson", "LobattoIIIC4", "RK108Solver"]
CASE_TIMEOUT = 900


def gen_cases(tier, seed):
    M = util.methods()
    rng = rng_for(301, seed)
    names = QUICK_METHODS if tier == "quick" else list(M)
    cases = []
    hist_all = ["single", "split2", "split3", "reverse", "retarget_extend", "retarget_back", "retarget_twice"]
    for name in names:
        info = M[name]
        for si, span in enumerate(SPANS):
            if tier == "quick" and rng.random() < 0.45:
                continue
            L = abs(span[1] - span[0])
            for rep in range(1 if tier == "quick" else 2):
                if info["adaptive"]:
                    frac = float(rng.choice([1e-4, 1e-2, 0.3, 20.0]))
                else:
                    frac = float(rng.choice([1 / 64.0, 0.013, 0.37, 20.0]))
                dts = float(rng.choice([-1, 1]))
                dtype = "float64"
                r = rng.random()
                if abs(span[0]) < 1e5:
                    if r < 0.15:
                        dtype = "float32"
                    elif r < 0.3:
                        dtype = "longdouble"
                if dtype == "longdouble" and not info["explicit"] and info["stages"] > 3:
                    dtype = "float64"
                cases.append(dict(kind="span", method=name, dtype=dtype, span=list(span), dt=dts * frac * L, dtfrac=frac,
                                  history=str(rng.choice(hist_all)), pseed=int(rng.integers(1 << 30)), dense=bool(rng.random() < 0.3),
                                  cost=(3 if info["explicit"] else 12) * (3 if frac < 1e-2 else 1)))
    # a LONG closing step towards a target of much smaller magnitude than the current time, far from the origin: t + (tf - t) then rounds an ulp
    # away from tf in about half of the cases, and the end-of-span logic must neither chase that ulp backwards nor miss the target
    for name in names:
        if not M[name]["explicit"] and tier == "quick" and name not in ("BackwardEuler", "GaussLegendre4"):
            continue
        for r in range((12 if M[name]["explicit"] else 3) if tier == "quick" else 30):
            sg = float(rng.choice([-1, 1]))
            a_, b_ = sg * float(rng.uniform(1e6, 3e6)), sg * float(rng.uniform(1e5, 9e5))
            span = [a_, b_] if rng.random() < 0.75 else [b_, a_]
            cases.append(dict(kind="span", method=name, dtype="float64", span=span, dt=abs(span[1] - span[0]) / float(rng.choice([1.5, 1.5, 2.6])), dtfrac=0.66,
                              history="single", pseed=int(rng.integers(1 << 30)), dense=bool(rng.random() < 0.3), tau=1e6, cost=3 if M[name]["explicit"] else 12))
    # calls whose closing (clipped) step is rejected and retried (constructed from a reference run on a quiet-then-steep problem)
    for name in [n for n in names if M[n]["adaptive"] and M[n]["order"] <= 8]:
        for d_ in (1, -1):
            t0_ = float(rng.uniform(-3, 3))
            cases.append(dict(kind="closing", method=name, dtype="float64", span=[t0_, t0_ + d_ * float(rng.uniform(1.0, 3.0))], dt=0.02, dtfrac=0.01, history="single",
                              pseed=int(rng.integers(1 << 30)), dense=False, cost=10 if M[name]["explicit"] else 60))
    # right-hand sides defined on part of the state space only (draining tank h' = -k sqrt(h), run to 90-97% of the emptying time): a long TRIAL step
    # leaves the domain and has no valid error estimate (NaN); the call may fail loudly, but a call that reports success has stored finite values only.
    # Also a component that is identically zero under a purely relative tolerance (error ratio 0/0)
    rngd = rng_for(303, seed)
    dom_methods = [n for n in M if M[n]["adaptive"] and M[n]["explicit"]] + ["RadauIIA5", "LobattoIIIC4"]
    for name in dom_methods:
        for rep in range(3 if tier == "quick" else 10):
            d_ = int(rngd.choice([1, -1]))
            k_ = float(rngd.uniform(0.15, 0.6))
            h0_ = float(rngd.uniform(0.5, 4.0))
            te_ = 2.0 * np.sqrt(h0_) / k_
            t0_ = float(rngd.choice([0.0, -4.0, 12.0, float(rngd.uniform(-20, 20))]))
            L_ = te_ * float(rngd.uniform(0.9, 0.97))
            cases.append(dict(kind="domain", method=name, dtype=str(rngd.choice(["float64", "float64", "float32"])) if M[name]["explicit"] else "float64",
                              span=[t0_, t0_ + d_ * L_], dt=float(rngd.choice([0.42, 0.6, 0.8, 0.95])) * te_, dtfrac=0.7, history="single", tank=[k_, h0_],
                              idle=bool(rngd.random() < 0.3) and M[name]["explicit"], pseed=int(rngd.integers(1 << 30)), dense=bool(rngd.random() < 0.3), cost=3 if M[name]["explicit"] else 12))
            # (a zero absolute tolerance on an identically zero component asks an implicit method for an exact stage solve: it crawls at steps of 1e-6,
            #  which is the request's doing - the idle component goes to explicit methods only)
    # runs that outgrow the 5000-row buffer, with and without events / dense output
    big = [("EulerSolver", False, False), ("RK4Solver", True, False), ("RK4Solver", False, True), ("SymplecticEulerSolver", False, False)]
    if tier == "thorough":
        big += [("MidpointSolver", True, True), ("HeunsSolver", False, False), ("RK5Solver", True, False), ("EulerSolver", True, True)]
    for (name, dense, ev) in big:
        for span in ([(0.0, 2.0), (3.0, -3.0)] if tier == "quick" else [(0.0, 2.0), (3.0, -3.0), (-5.0, 1.0), (10.0, 5.0)]):
            if tier == "quick" and (dense or ev) and span[0] != 0.0:
                continue
            L = abs(span[1] - span[0])
            cases.append(dict(kind="big", method=name, dtype="float64", span=list(span), dt=L / float(rng.integers(6100, 7900)), dtfrac=1 / 7000.0,
                              history="single", pseed=int(rng.integers(1 << 30)), dense=dense, events=ev, cost=40))
    return cases


_markers = None


def worker_setup(shard):
    global _markers
    import desolver.differential_system as ds
    _markers = ReachMarkers()
    _markers.add("buffer_growth_in_loop", ds.OdeSystem.integrate, "total_steps = self._OdeSystem__alloc_space_steps(tf - dTime) + 1")
    _markers.add("buffer_growth_in_loop", ds.OdeSystem.integrate, "total_steps = self.__alloc_space_steps(tf - dTime) + 1")
    _markers.start()


def worker_finish():
    if _markers is None:
        return {}
    _markers.stop()
    return {"counters": {"marker_" + k: v for k, v in _markers.hit.items()}, "violations": []}


def run_case(spec):
    M = util.methods()
    info = M[spec["method"]]
    dt = dtype_of(spec["dtype"])
    t0, tf = spec["span"]
    d = 1 if tf > t0 else -1
    if spec.get("kind") == "closing":
        qb = QuietBump(2, spec["pseed"], t0, tf)

        class _P:     # quiet-then-steep quadrature + clock component
            @staticmethod
            def rhs(t, y, **kw):
                out = np.empty_like(y)
                out[:-1] = qb.rhs(t, y[:-1])
                out[-1] = 1
                return out

            @staticmethod
            def y0(t0_, dt_):
                out = np.empty(3, dtype=dt_)
                out[:-1] = qb.ystar(t0_).astype(dt_)
                out[-1] = 0
                return out
        prob = _P
    elif spec.get("kind") == "domain":
        k_, h0_ = spec["tank"]

        class _T:     # [tank level (sqrt: NaN below zero), optional idle component, clock]; along the direction of integration the level falls
            @staticmethod
            def rhs(t, y, **kw):
                out = np.empty_like(y)
                with np.errstate(all="ignore"):
                    out[0] = -d * y.dtype.type(k_) * np.sqrt(y[0])
                out[1:-1] = 0
                out[-1] = 1
                return out

            @staticmethod
            def y0(t0_, dt_):
                out = np.zeros(3 if spec.get("idle") else 2, dtype=dt_)
                out[0] = h0_
                return out
        prob = _T
    else:
        base = Manufactured(2, spec["pseed"], direction=d)
        if spec.get("tau"):
            from vf.problems import TimeScaled
            base = TimeScaled(base, spec["tau"])     # the same dynamics on a time axis stretched by tau (times ~1e6, steps ~1e5..1e6)
        prob = Clocked(base)
    y0 = prob.y0(t0, dt)
    y0_copy = y0.copy()
    rec = util.Rec(sig="%s|%s|%s|%s|%s|%s" % (spec["method"], spec["dtype"], spec["span"], spec["dtfrac"], spec["history"], spec.get("kind")))
    feats = {"method": spec["method"], "family": info["family"], "dtype": spec["dtype"], "direction": d,
             "span_class": _span_class(t0, tf), "dt_class": "gt_span" if abs(spec["dt"]) > abs(tf - t0) else "le_span", "history": spec["history"]}
    eps = float(np.finfo(dt).eps)
    if abs(spec["dt"]) < 64 * eps * max(abs(t0), abs(tf), 1.0) and not info["adaptive"]:
        rec.skipped = "dt below 64 ulp of the time scale"
        return rec.out()
    tol = dict(rtol=1e-6, atol=1e-8) if spec["dtype"] != "float32" else dict(rtol=1e-3, atol=1e-4)
    if spec.get("kind") == "domain":
        feats["kind"] = "restricted_domain"
        if spec.get("idle"):
            tol = dict(rtol=tol["rtol"], atol=0.0)
            feats["idle_component_relative_tolerance_only"] = True
    if spec.get("kind") == "closing":
        tgt = sysrun.closing_rejection_target(lambda: sysrun.make_system(prob.rhs, y0.copy(), t0, tf, spec["dt"], info["cls"], **tol))
        # the reference run over the whole span is a call like any other: same oracle
        ref_sys, ref_seg = sysrun.closing_rejection_target.last_reference
        if ref_seg["raised"] is None:
            rec.bump("calls_checked")
            sysrun.segment_invariants(rec, ref_sys, ref_seg, tf, dict(feats, call="reference"), y0_copy=y0_copy, clock=True,
                                      step_tol=0.0 if info["explicit"] else 0.5 * (tol["atol"] + tol["rtol"] * float(np.max(np.abs(ref_sys.y)))))
        if tgt is None:
            rec.skipped = "closing: no rejected step in the reference run"
            rec.nontrivial = len(ref_sys) >= 3
            return rec.out()
        tf = tgt
        rec.bump("closing_rejection_calls")
    system = sysrun.make_system(prob.rhs, y0, t0, tf, spec["dt"], info["cls"], dense=spec.get("dense", False), **tol)
    L = abs(tf - t0)
    expected = L / min(abs(spec["dt"]), L) if not info["adaptive"] else 2000
    budget = int(20 * expected + 2000)
    events = None
    if spec.get("events"):
        def ev(t, y, **kw):
            return y[0] - 0.123
        events = [ev]
    hist = spec["history"]
    targets = []
    if hist == "single":
        targets = [None]
    elif hist == "split2":
        targets = [t0 + 0.4 * (tf - t0), None]
    elif hist == "split3":
        targets = [t0 + 0.25 * (tf - t0), t0 + 0.5 * (tf - t0), tf]
    elif hist == "reverse":
        targets = [None, t0 + 0.5 * (tf - t0)]
    elif hist == "retarget_extend":     # the final time is moved through its setter after a completed run; integrate() then goes to the new one
        targets = [None, ("tf", tf + 0.4 * (tf - t0)), None]
    elif hist == "retarget_back":
        targets = [None, ("tf", t0 + 0.6 * (tf - t0)), None]
    elif hist == "retarget_twice":
        targets = [t0 + 0.3 * (tf - t0), ("tf", t0 + 0.7 * (tf - t0)), None, None, ("tf", tf + 0.2 * (tf - t0)), None]
    tf_now = tf
    ci = -1
    for tgt in targets:
        if isinstance(tgt, tuple):
            system.tf = tgt[1]
            tf_now = tgt[1]
            rec.bump("tf_setter_uses")
            continue
        ci += 1
        tgt_eff = tf_now if tgt is None else tgt
        here = float(system.t[-1])
        if abs(tgt_eff - here) <= 64 * eps * max(1.0, abs(here)):
            # already at the target (e.g. integrate() repeated): the call must change nothing
            n_before = len(system)
            seg = sysrun.call_integrate(system, t=tgt, events=events, max_steps=budget)
            rec.bump("noop_calls")
            if seg["raised"] is not None or len(system) != n_before:
                rec.violate("noop", "call_at_the_target_changed_the_record", dict(feats, call=ci), rows=[n_before, len(system)], raised=str(seg["raised"]))
            continue
        seg = sysrun.call_integrate(system, t=tgt, events=events, max_steps=budget)
        dd = 1 if tgt_eff > here else -1
        f2 = dict(feats, call=ci, call_direction=dd)
        if seg["raised"] is not None:
            cause = getattr(seg["exc"], "__cause__", None)
            if isinstance(cause, sysrun.StepBudgetExceeded) or isinstance(seg["exc"], sysrun.StepBudgetExceeded):
                rec.violate("reach", "step_budget_exceeded_before_target", f2, budget=budget, last_t=float(system.t[-1]), target=tgt_eff, dt_now=float(system.dt))
            else:
                # C03 speaks about successful integrations; a tolerance failure is C05/C12's subject
                rec.bump("calls_raised_" + type(cause or seg["exc"]).__name__)
                if spec.get("kind") == "domain":
                    rec.bump("restricted_domain_calls_failed_loudly")
                    rec.bump("restricted_domain_calls")
                    rec.nontrivial = True
                rec.sample = {"spec": spec, "raised": repr(cause or seg["exc"])[:200]}
            break
        rec.bump("calls_checked")
        if spec.get("kind") == "domain":
            rec.bump("restricted_domain_calls_succeeded")
            rec.bump("restricted_domain_calls")
            hs_ = (np.sqrt(spec["tank"][1]) - 0.5 * spec["tank"][0] * np.abs(np.asarray(system.t, dtype=np.float64) - t0)) ** 2
            err_ = float(np.max(np.abs(np.asarray(system.y, dtype=np.float64)[:, 0] - hs_)))
            if not (err_ <= 1e3 * (tol["atol"] + tol["rtol"] * spec["tank"][1]) * max(1, len(system))):      # (NaN fails this too)
                rec.violate("accuracy", "successful_run_inaccurate_or_not_finite_on_restricted_domain_problem", f2, err=err_, rows=len(system))
        nrows = seg["i1"] - seg["i0"] + 1
        if nrows >= 3:
            rec.nontrivial = True
        if dd < 0:
            rec.bump("backward_calls")
        if spec.get("tau"):
            rec.bump("calls_with_a_long_closing_step_far_from_the_origin")
        if (here < 0) != (tgt_eff < 0) or here == 0 or tgt_eff == 0:
            rec.bump("mixed_sign_calls")
        if ci == 0 and abs(spec["dt"]) > L:
            rec.bump("dt_gt_span_calls")
        if ci > 0 and dd != d:
            rec.bump("reversal_calls")
        if tgt is None and tf_now != tf:
            rec.bump("calls_after_tf_change")
        if len(system) > 5001:
            rec.bump("buffer_growth_runs")
        step_tol = 0.0
        if not info["explicit"]:
            step_tol = 0.5 * (tol["atol"] + tol["rtol"] * float(np.max(np.abs(system.y))))
        sysrun.segment_invariants(rec, system, seg, tgt_eff, f2, y0_copy=y0_copy, clock=True, step_tol=step_tol)
        if not system.success:
            rec.violate("status", "successful_call_but_status_not_success", f2, status=system.integration_status)
    if not np.array_equal(y0, y0_copy):
        rec.violate("caller_data", "y0_array_modified", feats)
    if rec.sample is None:
        rec.sample = {"spec": spec, "rows": len(system), "t_first": float(system.t[0]), "t_last": float(system.t[-1])}
    return rec.out()


def _span_class(t0, tf):
    s = lambda x: "0" if x == 0 else ("+" if x > 0 else "-")
    return s(t0) + s(tf) + ("f" if tf > t0 else "b") + ("big" if abs(t0) > 1e5 else "")
