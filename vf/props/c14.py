"""C14 - bracketing root finders return certified roots (known sign structure; scalar vs vector; in-situ contract)."""
import numpy as np

from vf import util
from vf.problems import rng_for, dtype_of

LEVEL = "exploration"
RULE = ("one case = (function family, scale decade 1e-6..1e9, bracket order, root position, tolerance, dtype, vector length 1..16); oracle from the known "
        "sign structure: sign change => success and a sign change (or |f|<=tol) within tol_x=max(tol,4eps)*(1+|x|)+4ulp of the result, result inside the "
        "bracket; success => |f|<=tol or a sign change within tol_x; no sign change and min|f|>tol => no success; vector == scalar component-wise; dtype "
        "preserved; plus an icontract post-condition on the production root finder during real event detection; non-trivial = solver executed on a "
        "non-degenerate bracket; distinct by (family, decade, dtype, tol class, order, seed)")
ASSUMPTIONS = ["'inside the bracket' is required whenever a sign change exists or success is claimed (the no-root sentinel inf with success=False is accepted)",
               "'zero' is read with the property's own notion |f| <= tol"]
RULE += " Strata added in the fourth seeding round: Batches solved before and after other public entry points of the library were used in the same process (purity)."
FLOORS = {"quick": {"scalar_calls": 800, "vector_calls": 150, "sign_change_cases": 500, "steep_sign_change_cases": 100, "no_sign_change_cases": 100,
                    "mixed_vectors": 40, "insitu_contract_evaluations": 100, "calls_repeated_after_other_api_use": 150},
          "thorough": {"scalar_calls": 8000, "vector_calls": 1500, "sign_change_cases": 5000, "steep_sign_change_cases": 1000, "no_sign_change_cases": 1000,
                       "mixed_vectors": 400, "insitu_contract_evaluations": 1500, "calls_repeated_after_other_api_use": 900}}
FAMILIES = ["linear", "cubic", "tanh", "expm", "poly3roots", "sin", "jump", "tangent", "endpoint", "positive", "sqrtlike", "bigexp", "quintic"]


class Fn:
    def __init__(self, fam, scale, r, seed):
        self.fam, self.s, self.r = fam, scale, r
        rng = rng_for(1401, seed)
        self.k = float(rng.uniform(0.5, 3.0))
        self.width = float(rng.uniform(0.3, 2.0))

    def __call__(self, x):
        s, r, k = self.s, self.r, self.k
        d = x - r
        f = self.fam
        if f == "linear" or f == "endpoint":
            return s * k * d
        if f == "cubic":
            return s * (d ** 3 + 0.05 * d)
        if f == "tanh":
            return s * np.tanh(200.0 * k * d)
        if f == "expm":
            return s * (np.exp(k * d) - 1)
        if f == "poly3roots":
            return s * d * (d - self.width) * (d + self.width)
        if f == "sin":
            return s * np.sin(k * d)
        if f == "jump":
            return s * (np.sign(d) + (d == 0)) * (np.abs(d) + 0.1)
        if f == "tangent":
            return s * d * d
        if f == "positive":
            return s * (1.0 + d * d)
        if f == "bigexp":     # values at the far end of a wide bracket exceed sqrt(max float32): products of function values overflow
            return s * (np.exp(d) - 2.0)
        if f == "quintic":
            return s * (d ** 5 - 3.0)
        if f == "sqrtlike":
            return s * np.sign(d) * np.sqrt(np.abs(d))
        raise ValueError(f)


def analytic_roots_inside(fn, lo, hi):
    """does the function have a real root (or a sign-changing jump) in [lo, hi]?  (known analytically per family)"""
    f, r = fn.fam, fn.r
    pts = []
    if f in ("linear", "endpoint", "cubic", "tanh", "expm", "jump", "tangent", "sqrtlike"):
        pts = [r]
    elif f == "poly3roots":
        pts = [r, r - fn.width, r + fn.width]
    elif f == "sin":
        m0 = int(np.floor((lo - r) * fn.k / np.pi)) - 1
        pts = [r + m * np.pi / fn.k for m in range(m0, m0 + int((hi - lo) * fn.k / np.pi) + 4)]
    elif f == "bigexp":
        pts = [r + np.log(2.0)]
    elif f == "quintic":
        pts = [r + 3.0 ** 0.2]
    elif f == "positive":
        pts = []
    pad = 1e-6 * (1 + abs(hi) + abs(lo))
    return any(lo - pad <= x <= hi + pad for x in pts)


def gen_cases(tier, seed):
    rng = rng_for(1402, seed)
    cases = []
    n = 1100 if tier == "quick" else 11000
    for i in range(n):
        fam = FAMILIES[i % len(FAMILIES)]
        dec = float(rng.uniform(-6, 9))
        tolc = str(rng.choice(["none", "eps", "1e-12", "1e-8", "1e-3"]))
        cases.append(dict(kind="scalar", fam=fam, scale=float(10 ** dec) * float(rng.choice([-1, 1])), root=float(rng.uniform(-20, 20)) * float(rng.choice([1, 1, 1e-3, 50])),
                          half=float(10 ** rng.uniform(-2, 1)), off=float(rng.uniform(-0.9, 0.9)), order=int(rng.choice([0, 1])), tol=tolc,
                          dtype=str(rng.choice(["float64", "float64", "float32", "longdouble"])), pseed=int(rng.integers(1 << 30)), cost=1))
    for i in range(200 if tier == "quick" else 2000):
        cases.append(dict(kind="vector", n=int(rng.integers(1, 17)), tol=str(rng.choice(["none", "eps", "1e-8", "1e-3"])), dtype=str(rng.choice(["float64", "float64", "float32", "longdouble"])),
                          order=int(rng.choice([0, 1])), pseed=int(rng.integers(1 << 30)), cost=2))
    # the solvers are functions of (f, bracket, tol) alone: the same batch is solved in a fresh worker state and again after OTHER public entry points
    # of the library have been used in this process (finite-difference Jacobians with sample inputs of large magnitude in every precision, an
    # integration with events, a nonlinear solve, an interpolant): bit-identical answers, and the second pass is judged like any other call
    rng2 = rng_for(1403, seed)
    for i in range(10 if tier == "quick" else 60):
        subs = []
        dtn = ["float64", "float32", "longdouble"][i % 3]
        for j in range(24):
            subs.append(dict(kind="scalar", fam=FAMILIES[int(rng2.integers(len(FAMILIES)))], scale=float(10 ** rng2.uniform(-6, 9)) * float(rng2.choice([-1, 1])),
                             root=float(rng2.uniform(-20, 20)) * float(rng2.choice([1, 1, 1e-3, 50])), half=float(10 ** rng2.uniform(-2, 1)), off=float(rng2.uniform(-0.9, 0.9)),
                             order=int(rng2.choice([0, 1])), tol=str(rng2.choice(["none", "eps", "1e-12", "1e-8", "1e-3"])), dtype=dtn, pseed=int(rng2.integers(1 << 30))))
        cases.append(dict(kind="after_use", dtype=dtn, subs=subs, pseed=int(rng2.integers(1 << 30)), cost=6))
    for i in range(8 if tier == "quick" else 60):
        cases.append(dict(kind="insitu", direction=int(rng.choice([-1, 1])), dense=bool(rng.random() < 0.5), pseed=int(rng.integers(1 << 30)), cost=6))
    return cases


def _tol(name, dt):
    eps4 = 4 * float(np.finfo(dt).eps)
    if name == "none":
        return None, eps4
    if name == "eps":
        return float(np.finfo(dt).eps), eps4
    v = float(name)
    return v, max(v, eps4)


def _bracket(spec, dt):
    r, half, off = spec["root"], spec["half"], spec["off"]
    fam = spec["fam"]
    lo = r + half * (off - 1.0)
    hi = r + half * (off + 1.0)
    if fam == "bigexp":
        lo, hi = r - 1.0, r + 20.0 + 6.0 * half       # exp(20..80): 5e8 .. 5e34
    if fam == "quintic":
        lo, hi = r + 0.5, r + 40.0 + 40.0 * half      # x^5 up to 1e13
    if fam == "endpoint":
        lo = r
    a, b = (lo, hi) if spec["order"] == 0 else (hi, lo)
    return np.asarray(a, dtype=dt), np.asarray(b, dtype=dt)


def _analyse(fn, a, b, dt, teff):
    """known sign structure on the bracket as the solver sees it (dtype dt)."""
    fa, fb = float(fn(a)), float(fn(b))
    xs = np.linspace(float(min(a, b)), float(max(a, b)), 4001).astype(dt)
    vals = np.asarray(fn(xs), dtype=np.float64)
    return fa, fb, float(np.min(np.abs(vals)))


def _near_sign_change(fn, x, tolx, dt, tol):
    x = np.asarray(x, dtype=dt)
    xl = np.asarray(x - dt.type(tolx), dtype=dt)
    xr = np.asarray(x + dt.type(tolx), dtype=dt)
    fl, fc, fr = float(fn(xl)), float(fn(x)), float(fn(xr))
    return (fl * fr <= 0) or (fl * fc <= 0) or (fc * fr <= 0) or abs(fc) <= tol


def _use_other_entry_points(dtn):
    """Legitimate uses of other public parts of the library (none of them has any business with the root finders' behaviour)."""
    import desolver as de
    from desolver import utilities as du
    from desolver.utilities import optimizer as opt
    from desolver.utilities.interpolation import CubicHermiteInterp
    for dn in ("float32", "float64", "longdouble", dtn):
        dt = dtype_of(dn)
        x = np.asarray([3.0e5, -2.0, 7.5e2], dtype=dt)

        def g(v):
            return np.stack([v[0] * v[1], np.sin(v[2]) + v[0], v[1] ** 2])
        jw = du.JacobianWrapper(g, sample_input=x)
        jw(x)
        du.JacobianWrapper(g, base_order=4, sample_input=x * dt.type(1e3))(x)

    def f(t, y, **kw):
        return np.stack([y[1], -y[0]])
    rhs = de.DiffRHS(f)
    rhs.jac(np.asarray(0.5), np.asarray([1.0e4, -3.0]))

    def ev(t, y, **kw):
        return y[0]
    sysm = de.OdeSystem(f, y0=np.asarray([1.0, 0.0]), t=(0.0, 4.0), dense_output=True, dt=0.05, rtol=1e-8, atol=1e-10)
    sysm.method = "RK45"
    sysm.integrate(events=[ev])
    sysm.sol(np.asarray([0.3, 1.7]))
    opt.nonlinear_roots(lambda v: np.stack([v[0] ** 2 - 2.0, v[1] - v[0]]), np.asarray([1.0, 1.0]))
    opt.nonlinear_roots(lambda v: np.stack([v[0] ** 2 - 2.0, v[1] - v[0]]), np.asarray([1.0, 1.0], dtype=np.longdouble))
    CubicHermiteInterp(np.asarray(0.0), np.asarray(1.0e3), np.asarray([0.0]), np.asarray([1.0]), np.asarray([1.0]), np.asarray([-1.0]))(np.asarray(400.0))


def _after_use(spec):
    from desolver.utilities import optimizer as opt
    rec = util.Rec(sig="after_use|%s|%d" % (spec["dtype"], spec["pseed"] % 997))
    feats = {"kind": "after_use", "dtype": spec["dtype"]}
    dt = dtype_of(spec["dtype"])

    def solve_all():
        out = []
        for sub in spec["subs"]:
            fn = Fn(sub["fam"], sub["scale"], sub["root"], sub["pseed"])
            a, b = _bracket(sub, dt)
            if float(a) == float(b):
                out.append(None)
                continue
            tol, tol_eff = _tol(sub["tol"], dt)
            x, ok = opt.brentsroot(fn, [a, b], tol=tol)
            out.append((fn, a, b, x, bool(ok), tol_eff))
        return out
    first = solve_all()
    _use_other_entry_points(spec["dtype"])
    rec.bump("batches_repeated_after_other_api_use")
    second = solve_all()
    for sub, r1, r2 in zip(spec["subs"], first, second):
        if r1 is None or r2 is None:
            continue
        rec.bump("scalar_calls")
        rec.bump("calls_repeated_after_other_api_use")
        f2 = dict(feats, fam=sub["fam"], tol=sub["tol"], scale_decade=int(np.floor(np.log10(abs(sub["scale"])))))
        # (by value: the storage of an extended-precision number carries padding bytes)
        same = (r1[4] == r2[4]) and bool(np.asarray(r1[3]) == np.asarray(r2[3]) or (np.isnan(r1[3]) and np.isnan(r2[3])))
        if not same:
            rec.violate("purity", "result_depends_on_earlier_use_of_other_library_functions", f2, first=[float(r1[3]), r1[4]], second=[float(r2[3]), r2[4]])
        _check_one(rec, f2, r2[0], r2[1], r2[2], r2[3], r2[4], dt, r2[5])
    rec.nontrivial = True
    rec.sample = {"spec": {"kind": "after_use", "dtype": spec["dtype"], "n": len(spec["subs"])}}
    return rec.out()


def run_case(spec):
    if spec["kind"] == "after_use":
        return _after_use(spec)
    if spec["kind"] == "scalar":
        return _scalar(spec)
    if spec["kind"] == "vector":
        return _vector(spec)
    return _insitu(spec)


def _check_one(rec, feats, fn, a, b, x, ok, dt, tol_eff, prefix=""):
    eps = float(np.finfo(dt).eps)
    fa, fb, minabs = _analyse(fn, a, b, dt, tol_eff)
    lo, hi = float(min(a, b)), float(max(a, b))
    xf = float(x)
    xq = np.asarray(x, dtype=dt)     # evaluations use the result in the solver's own precision
    sign_change = fa * fb < 0 and abs(fa) > 0 and abs(fb) > 0
    endpoint_root = (fa == 0.0 or fb == 0.0)
    ulp = float(np.spacing(np.abs(np.asarray(x, dtype=dt)))) if np.isfinite(xf) else 0.0
    tolx = tol_eff * (1 + abs(xf)) + 4 * ulp
    steep = False
    if sign_change:
        rec.bump("sign_change_cases")
        # steep: the function moves by more than tol across one tol_x
        if np.isfinite(xf):
            steep = abs(float(fn(xq + dt.type(tolx))) - float(fn(xq - dt.type(tolx)))) > tol_eff
        if steep:
            rec.bump("steep_sign_change_cases")
        if not bool(ok):
            rec.violate(prefix + "sign_change_not_solved", "failure_reported_although_the_function_changes_sign", dict(feats, steep=bool(steep)), bracket=[float(a), float(b)], f_ends=[fa, fb], x=xf,
                        f_x=float(fn(np.asarray(xf, dtype=dt))) if np.isfinite(xf) else None, tol=tol_eff)
        if not (lo - 4 * ulp <= xf <= hi + 4 * ulp):
            rec.violate(prefix + "outside_bracket", "result_outside_the_bracket", feats, bracket=[float(a), float(b)], x=xf)
        elif not _near_sign_change(fn, xq, tolx, dt, tol_eff):
            rec.violate(prefix + "not_near_sign_change", "no_sign_change_within_tolerance_of_the_result", feats, x=xf, tolx=tolx, bracket=[float(a), float(b)])
    else:
        rec.bump("no_sign_change_cases")
        if bool(ok):
            if not np.isfinite(xf) or not (lo - 4 * ulp <= xf <= hi + 4 * ulp):
                rec.violate(prefix + "outside_bracket", "success_claimed_outside_the_bracket", feats, bracket=[float(a), float(b)], x=xf)
            elif minabs > tol_eff and not endpoint_root and not analytic_roots_inside(fn, lo, hi) and not _near_sign_change(fn, xq, tolx, dt, tol_eff):
                rec.violate(prefix + "false_success", "success_claimed_without_root_or_sign_change", feats, x=xf, f_x=float(fn(np.asarray(xf, dtype=dt))), min_abs_f=minabs, tol=tol_eff)
    if bool(ok) and np.isfinite(xf):
        if not _near_sign_change(fn, xq, tolx, dt, tol_eff):
            rec.violate(prefix + "success_not_certified", "success_but_f_not_zero_within_tolerance_nor_sign_change_nearby", feats, x=xf, f_x=float(fn(np.asarray(xf, dtype=dt))), tol=tol_eff, tolx=tolx)
    return sign_change


def _scalar(spec):
    from desolver.utilities import optimizer as opt
    dt = dtype_of(spec["dtype"])
    fn = Fn(spec["fam"], spec["scale"], spec["root"], spec["pseed"])
    a, b = _bracket(spec, dt)
    tol, tol_eff = _tol(spec["tol"], dt)
    rec = util.Rec(sig="scalar|%s|%d|%s|%s|%d|%d" % (spec["fam"], int(np.floor(np.log10(abs(spec["scale"])))), spec["dtype"], spec["tol"], spec["order"], spec["pseed"] % 97))
    feats = {"kind": "scalar", "fam": spec["fam"], "dtype": spec["dtype"], "tol": spec["tol"], "scale_decade": int(np.floor(np.log10(abs(spec["scale"]))))}
    if float(a) == float(b):
        rec.skipped = "degenerate bracket in this precision"
        return rec.out()
    x, ok = opt.brentsroot(fn, [a, b], tol=tol)
    rec.bump("scalar_calls")
    rec.nontrivial = True
    _check_one(rec, feats, fn, a, b, x, ok, dt, tol_eff)
    rec.sample = {"spec": spec, "x": float(x), "success": bool(ok)}
    return rec.out()


def _vector(spec):
    from desolver.utilities import optimizer as opt
    dt = dtype_of(spec["dtype"])
    rng = rng_for(1403, spec["pseed"])
    n = spec["n"]
    tol, tol_eff = _tol(spec["tol"], dt)
    fns, As, Bs = [], [], []
    for i in range(n):
        fam = FAMILIES[int(rng.integers(len(FAMILIES)))]
        s = dict(fam=fam, scale=float(10 ** rng.uniform(-6, 9)) * float(rng.choice([-1, 1])), root=float(rng.uniform(-20, 20)), half=float(10 ** rng.uniform(-2, 1)),
                 off=float(rng.uniform(-0.9, 0.9)) if rng.random() < 0.75 else float(rng.uniform(1.2, 3.0)), order=spec["order"])
        fn = Fn(fam, s["scale"], s["root"], spec["pseed"] + i)
        a, b = _bracket(s, dt)
        fns.append(fn)
        As.append(a)
        Bs.append(b)
    A = np.asarray(As, dtype=dt)
    B = np.asarray(Bs, dtype=dt)
    rec = util.Rec(sig="vector|%d|%s|%s|%d" % (n, spec["dtype"], spec["tol"], spec["pseed"] % 997))
    feats = {"kind": "vector", "dtype": spec["dtype"], "tol": spec["tol"]}
    if np.any(A == B):
        rec.skipped = "degenerate bracket in this precision"
        return rec.out()
    xs, oks = opt.brentsrootvec(list(fns), [A.copy(), B.copy()], tol=tol)
    rec.bump("vector_calls")
    rec.nontrivial = True
    xs = np.asarray(xs)
    oks = np.asarray(oks)
    if xs.shape != (n,) or oks.shape != (n,):
        rec.violate("vector_shape", "result_shape_differs_from_number_of_functions", feats, shapes=[list(xs.shape), list(oks.shape)])
        return rec.out()
    kinds = set()
    for i in range(n):
        sc = _check_one(rec, dict(feats, fam=fns[i].fam), fns[i], A[i], B[i], xs[i], oks[i], dt, tol_eff, prefix="vec_")
        kinds.add(bool(sc))
        # component-wise agreement with the scalar solver - required where the answer is determined: a sign change exists
        # (both succeed, same root unless several sign changes) or no sign change and min|f| > tol (both fail); functions that
        # are 'zero to within tol' without changing sign leave the verdict to the solver's discretion
        x1, ok1 = opt.brentsroot(fns[i], [A[i], B[i]], tol=tol)
        fa_, fb_, minabs_ = _analyse(fns[i], A[i], B[i], dt, tol_eff)
        lo_, hi_ = float(min(A[i], B[i])), float(max(A[i], B[i]))
        determined = (fa_ * fb_ < 0) or (minabs_ > tol_eff and fa_ != 0 and fb_ != 0 and not analytic_roots_inside(fns[i], lo_, hi_))
        if not determined:
            rec.bump("agreement_undetermined")
        elif bool(ok1) != bool(oks[i]):
            rec.violate("vector_vs_scalar", "success_flag_differs_between_vector_and_scalar_solver", dict(feats, fam=fns[i].fam), i=i, scalar=[float(x1), bool(ok1)], vector=[float(xs[i]), bool(oks[i])],
                        bracket=[float(A[i]), float(B[i])])
        elif bool(ok1):
            ulp = float(np.spacing(np.abs(np.asarray(x1, dtype=dt))))
            tolx = tol_eff * (1 + abs(float(x1))) + 8 * ulp
            if abs(float(np.longdouble(x1) - np.longdouble(xs[i]))) > 2 * tolx and fns[i].fam not in ("poly3roots", "sin", "tangent"):
                rec.violate("vector_vs_scalar", "roots_differ_between_vector_and_scalar_solver", dict(feats, fam=fns[i].fam), i=i, scalar=float(x1), vector=float(xs[i]), tolx=tolx)
    if len(kinds) == 2:
        rec.bump("mixed_vectors")
    rec.sample = {"spec": spec, "families": [f.fam for f in fns][:6], "success": [bool(x) for x in oks][:6]}
    return rec.out()


_log = {"evals": 0, "bad": []}


def _post(f, bounds, result):
    """record-only post-condition on the production (vectorised) root finder used by event detection."""
    _log["evals"] += 1
    try:
        roots, ok = np.asarray(result[0]), np.asarray(result[1])
        a, b = np.asarray(bounds[0]), np.asarray(bounds[1])
        for i, fi in enumerate(f):
            fa, fb = float(fi(a)), float(fi(b))
            lo, hi = float(min(a, b)), float(max(a, b))
            if fa * fb < 0:
                if not bool(ok[i]) and len(_log["bad"]) < 5:
                    _log["bad"].append({"what": "failure_on_sign_change", "bracket": [float(a), float(b)], "f": [fa, fb], "root": float(roots[i])})
                elif not (lo <= float(roots[i]) <= hi) and len(_log["bad"]) < 5:
                    _log["bad"].append({"what": "root_outside_bracket", "bracket": [float(a), float(b)], "root": float(roots[i])})
    except Exception as e:   # the monitor must never disturb the execution it observes
        _log["bad"].append({"what": "monitor_error", "err": repr(e)[:100]})
    return True


def _insitu(spec):
    import icontract
    import desolver.differential_system as ds
    from vf import sysrun
    from vf.events import Ev, random_event_spec
    from vf.problems import Manufactured

    class ContractBroken(Exception):
        pass
    orig = ds.root_finder
    ds.root_finder = icontract.ensure(_post, error=ContractBroken)(lambda f, bounds, tol=None, verbose=False: orig(f, bounds, tol=tol, verbose=verbose))
    rec = util.Rec(sig="insitu|%d|%s|%d" % (spec["direction"], spec["dense"], spec["pseed"] % 1000))
    try:
        _log["evals"] = 0
        _log["bad"] = []
        d = spec["direction"]
        prob = Manufactured(2, spec["pseed"], direction=d, freq=(1.0, 3.0))
        rng = rng_for(1404, spec["pseed"])
        t0, tf = 0.5, 0.5 + d * 5.0
        evs = [Ev(random_event_spec(rng, prob, t0, tf, 2), 2) for _ in range(4)]
        system = sysrun.make_system(prob.rhs, prob.ystar(t0).astype(np.float64), t0, tf, 0.05, util.methods()["RK45CKSolver"]["cls"], dense=spec["dense"], rtol=1e-6, atol=1e-8)
        system.integrate(events=evs)
    finally:
        ds.root_finder = orig
    rec.bump("insitu_contract_evaluations", _log["evals"])
    rec.nontrivial = _log["evals"] > 0
    for b in _log["bad"]:
        rec.violate("insitu_" + b["what"], "production_root_finder_call_violates_contract", {"kind": "insitu", "direction": spec["direction"], "dense": spec["dense"]}, **b)
    rec.sample = {"spec": spec, "contract_evaluations": _log["evals"]}
    return rec.out()
