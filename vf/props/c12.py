"""C12 - a failure leaves a consistent, resumable prefix (crash-point enumeration over user-callable invocations)."""
import sys

import numpy as np

from vf import util, sysrun
from vf.events import Ev
from vf.problems import Manufactured, Clocked, rng_for

LEVEL = "fault_enumeration"
RULE = ("a counting shim wraps the right-hand side, every callback and every event function; a dry run counts the N invocations of a short run and "
        "labels each with its call-site class (frame walk); then the run is repeated with the fault at EVERY k in 1..N (quick: exhaustive for all "
        "configurations of the battery; thorough: more configurations, fault types and double faults). One case = (configuration, chunk of k); "
        "non-trivial = the fault fired; distinct by (configuration, k). Oracle: exception type + cause identity, status, recorded rows bit-equal to a "
        "prefix of the unfaulted reference run, dense output covering exactly those rows, events inside the prefix, resume reaches tf with the C03/C06 "
        "oracles and the reference end state to tolerance, reset + rerun bit-equal to the reference. Kind tolfail: tolerances that cannot be met (a component "
        "with finite-time blow-up inside the span): FailedIntegration carrying the cause, failure status, prefix accurate (the blowing-up component in 1/w), "
        "no rows beyond the blow-up time, dense output covering the prefix; the right-hand side is then repaired and integrate() must continue to the end")
ASSUMPTIONS = ["faults are synchronous exceptions raised by user callables (the property's text); asynchronous interrupts between bytecodes are not injected",
               "ValueError/LinAlgError raised by the right-hand side inside an integrator step are retried once by the library: admissible outcomes are "
               "'FailedIntegration carrying the cause' or 'completed consistently'"]
RULE += " Strata added in the fourth seeding round: The statement's second failure kind - tolerances that cannot be met (finite-time blow-up of one component): exception type and cause, status, accurate prefix, dense cover, then the right-hand side is repaired and integrate() must continue to the end; reset() pristine."
EXHAUSTIVE = {"quick": True, "thorough": True}
FLOORS = {"quick": {"crash_points": 1500, "faults_fired": 1500, "resumes_checked": 1400, "resets_checked": 1400, "site_stage": 300, "site_event": 200,
                    "site_callback": 30, "site_end_slope": 20, "site_fd_jacobian": 30, "site_newton": 30, "keyboard_interrupts": 100,
                    "resume_step_replay_steps": 1500, "faults_inside_a_retry_of_a_rejected_step": 100, "tolerance_failures_raised": 20, "resumes_after_tolerance_failure": 10},
          "thorough": {"crash_points": 12000, "faults_fired": 12000, "resumes_checked": 11000, "resets_checked": 11000, "site_stage": 1100, "site_event": 2000,
                       "site_callback": 300, "site_end_slope": 200, "site_fd_jacobian": 300, "site_newton": 300, "keyboard_interrupts": 800, "double_faults": 500,
                       "resume_step_replay_steps": 10000, "faults_inside_a_retry_of_a_rejected_step": 800, "tolerance_failures_raised": 60, "resumes_after_tolerance_failure": 30}}
CASE_TIMEOUT = 1500
CHUNK = 24


class InjectedFault(Exception):
    pass


FAULTS = {"injected": InjectedFault, "zerodiv": ZeroDivisionError, "fpe": FloatingPointError, "kbd": KeyboardInterrupt, "value": ValueError}


def configs(tier):
    base = [
        dict(method="RK45CKSolver", rich=0, nsteps=6, tol=1e-4),
        dict(method="DOPRI45", rich=0, nsteps=6, tol=1e-4),
        dict(method="RK4Solver", rich=0, nsteps=7, tol=None),
        dict(method="ABAs5o6HSolver", rich=0, nsteps=5, tol=None),
        dict(method="BackwardEuler", rich=0, nsteps=4, tol=1e-3),
        dict(method="RadauIIA5", rich=0, nsteps=3, tol=1e-3),
    ]
    if tier == "thorough":
        base += [dict(method="MidpointSolver", rich=3, nsteps=4, tol=1e-3), dict(method="HeunEulerSolver", rich=0, nsteps=5, tol=1e-2),
                 dict(method="GaussLegendre4", rich=0, nsteps=3, tol=1e-3), dict(method="SymplecticEulerSolver", rich=0, nsteps=8, tol=None),
                 dict(method="RK8713MSolver", rich=0, nsteps=4, tol=1e-5), dict(method="CrankNicolson", rich=0, nsteps=4, tol=1e-3)]
    out = []
    for b in base:
        for d in (1, -1):
            for dense in ((True, False) if tier == "thorough" else ((True,) if d > 0 else (False,))):
                out.append(dict(b, direction=d, dense=dense, events=True))
    # a callback inflates dt after every step, so that every step but the first begins with a rejected attempt: crash points inside the
    # retries of rejected, non-first steps (where per-step caches of the integrator are in their most fragile state)
    for b in ([dict(method="RK45CKSolver", rich=0, nsteps=5, tol=1e-4), dict(method="DOPRI45", rich=0, nsteps=5, tol=1e-4)] +
              ([dict(method="RadauIIA5", rich=0, nsteps=3, tol=1e-3), dict(method="RK8713MSolver", rich=0, nsteps=4, tol=1e-5)] if tier == "thorough" else [])):
        for d, dense in (((1, True), (-1, False)) if tier == "quick" else ((1, True), (1, False), (-1, True), (-1, False))):
            out.append(dict(b, direction=d, dense=dense, events=(tier == "thorough"), inflate=6.0))
    if tier == "quick":
        out.append(dict(method="MidpointSolver", rich=3, nsteps=3, tol=1e-3, direction=1, dense=True, events=True))
        out.append(dict(method="RK45CKSolver", rich=0, nsteps=6, tol=1e-4, direction=-1, dense=True, events=True))
        out.append(dict(method="RK4Solver", rich=0, nsteps=7, tol=None, direction=1, dense=False, events=True))
    return out


def gen_cases(tier, seed):
    import os
    cases = []
    faults_cycle = ["injected", "kbd", "zerodiv", "fpe", "value"]
    for ci, cfg in enumerate(configs(tier)):
        cfg = dict(cfg, pseed=1000 * seed + ci)
        n = _dry_count(cfg)
        ks = list(range(1, n + 1))
        for c0 in range(0, len(ks), CHUNK):
            chunk = ks[c0:c0 + CHUNK]
            cases.append(dict(cfg=cfg, ks=chunk, n_total=n, faults=[faults_cycle[(k + ci) % len(faults_cycle)] for k in chunk], double=False, cost=len(chunk)))
        if tier == "thorough":
            rng = rng_for(1201, seed, ci)
            picks = sorted(set(int(x) for x in rng.integers(1, n + 1, size=min(n, 48))))
            for c0 in range(0, len(picks), CHUNK):
                chunk = picks[c0:c0 + CHUNK]
                cases.append(dict(cfg=cfg, ks=chunk, n_total=n, faults=["injected"] * len(chunk), double=True, cost=2 * len(chunk)))
    # the OTHER failure the statement names: tolerances that cannot be met.  A right-hand side that no step size can resolve inside a window of the
    # span (a term whose sign follows the low bits of t) makes the step controller give up there; the user then removes the term and resumes
    M = util.methods()
    rngt = rng_for(1202, seed)
    # (pairs of order >= 10 take steps long enough to jump over the pole with an estimate built from points on both sides of it - the premise
    #  "smooth on the scale of the step" fails there, as in C05's blow-up kind; they are left to C05)
    tf_methods = [n for n in M if M[n]["adaptive"] and M[n]["order"] < 10 and n != "RadauIIA19"] if tier == "thorough" else ["RK45CKSolver", "DOPRI45", "HeunEulerSolver", "RK8713MSolver", "RK5Solver" if "RK5Solver" in M and M["RK5Solver"]["adaptive"] else "RK45CKSolver", "RadauIIA5", "LobattoIIIC4"]
    for name in tf_methods:
        for d in (1, -1):
            for r in range((2 if M[name]["explicit"] else 1) if tier == "quick" else 5):
                cases.append(dict(kind="tolfail", method=name, direction=d, dense=bool(rngt.random() < 0.6), t0=float(rngt.uniform(-3, 3)), L=float(rngt.uniform(2.0, 4.0)),
                                  wfrac=float(rngt.uniform(0.25, 0.7)), rtol=float(10 ** rngt.uniform(-8, -5)), events=bool(rngt.random() < 0.4),
                                  pseed=int(rngt.integers(1 << 30)), cost=6 if M[name]["explicit"] else 40))
    return cases


def _tolfail(spec):
    import desolver as de
    M = util.methods()
    info = M[spec["method"]]
    d = spec["direction"]
    base = Manufactured(2, spec["pseed"], direction=d)
    prob = Clocked(base)
    t0, L = spec["t0"], spec["L"]
    tf = t0 + d * L
    tw = t0 + d * spec["wfrac"] * L
    state = {"rough": True, "rough_calls": 0}

    w0 = 1.0 / (spec["wfrac"] * L)        # w' = d*w^2 from w0: finite-time blow-up at tw, whatever the step size

    def f(t, y, **kw):
        out = np.array(prob.rhs(t, y), copy=True)
        with np.errstate(all="ignore"):
            out[-1] = (d * y[-1] * y[-1]) if state["rough"] else (-d * y[-1])      # after the repair: plain decay along the direction of integration
        if state["rough"]:
            state["rough_calls"] += 1
        return out
    rec = util.Rec(sig="tolfail|%s|%d|%s|%d" % (spec["method"], d, spec["dense"], spec["pseed"] % 1009))
    feats = {"kind": "tolerances_cannot_be_met", "method": spec["method"], "family": info["family"], "direction": d, "dense": spec["dense"]}
    y0 = prob.y0(t0, np.dtype("float64"))
    y0[-1] = w0
    y0c = y0.copy()
    rtol = spec["rtol"] if info["order"] > 2 else max(spec["rtol"], 1e-5)      # (a second-order pair at 1e-8 needs more steps than the harness allows a case)
    system = sysrun.make_system(f, y0, t0, tf, L / 40.0, info["cls"], dense=spec["dense"], rtol=rtol, atol=rtol * 1e-2)
    evs = None
    if spec["events"]:
        evs = [Ev({"kind": "time", "scale": 3.0, "c": t0 + 0.15 * (tf - t0), "direction": 0, "terminal": False}, 3)]
    seg = sysrun.call_integrate(system, events=evs, max_steps=20000)
    rec.bump("tolerance_failure_runs")
    if seg["raised"] is None:
        # the controller found steps it accepts across the unresolvable term: then what it recorded must still be the solution of the smooth problem
        # to tolerance (it is not: the term integrates to ~A*sqrt(h) noise) - judged by the accuracy clause below
        rec.bump("tolerance_failure_runs_that_completed")
    else:
        rec.bump("tolerance_failures_raised")
        rec.nontrivial = True
        cause = seg["exc"].__cause__ if isinstance(seg["exc"], BaseException) else None
        if isinstance(cause, sysrun.StepBudgetExceeded):
            # approaching a blow-up at a tight tolerance legitimately takes many thousands of steps: the harness's budget is not a verdict
            rec.bump("tolerance_failure_runs_that_exceeded_the_harness_step_budget")
            rec.skipped = "tolfail: harness step budget reached before the blow-up"
            return rec.out()
        if not isinstance(seg["exc"], de.exception_types.FailedIntegration):
            rec.violate("failure_type", "wrong_exception_type", feats, got=seg["raised"])
        elif cause is None or not isinstance(cause, Exception):
            rec.violate("failure_cause", "original_cause_not_carried", feats, got=repr(cause)[:200])
        else:
            rec.bump("cause_" + type(cause).__name__)
        st = system.integration_status
        if system.success:
            rec.violate("failure_status", "success_true_after_failure", feats, status=st)
        if "failed" not in st.lower():
            rec.violate("failure_status", "status_does_not_report_failure", feats, status=st)
    t = np.asarray(system.t)
    y = np.asarray(system.y)
    n = len(t)
    tolu = rtol
    step_tol = 0.0 if info["explicit"] else tolu
    below_resolution = bool(n > 1 and np.any(np.diff(t) == 0))
    if below_resolution:
        # the last steps before the blow-up are shorter than one ulp of t (the time no longer advances although the state does): the time axis has no
        # resolution left for "monotone" / "a piece per step" to be judged; the failure itself, its cause, the status, the accuracy of what was
        # recorded and reset() still are
        rec.bump("prefixes_ending_below_the_resolution_of_the_time_axis")
        keep = np.concatenate([[True], np.diff(t) != 0])
        if np.any(d * np.diff(t[keep]) <= 0):
            rec.violate("prefix_monotone", "time_goes_backwards_in_the_recorded_prefix", feats)
    else:
        sysrun.segment_invariants(rec, system, seg, tf, feats, y0_copy=y0c, require_reach=seg["raised"] is None, clock=False, step_tol=step_tol, clause_prefix="prefix_")
    # the blowing-up component, judged in z = 1/w (z' = -d: no amplification): z(t) = 1/w0 - |t - t0|
    with np.errstate(all="ignore"):
        znum = 1.0 / y[:, -1].astype(np.longdouble)
    zex = 1.0 / np.longdouble(w0) - np.abs(t.astype(np.longdouble) - t0)
    erz = float(np.max(np.abs(znum - zex))) if np.all(np.isfinite(znum)) else float("inf")
    unitz = 50 * rtol * (1.0 / w0) * max(1.0, float(n))
    rec.worst("blow_up_component_error_in_1_over_w_over_unit", erz / unitz)
    if not erz <= unitz:
        rec.violate("prefix_accuracy", "blowing_up_component_inaccurate_in_the_recorded_prefix", feats, err_in_1_over_w=erz, unit=unitz, rows=n)
    # (z' = -d has slope one: the numerical blow-up time differs from the exact one by the error in z, so rows may end that far beyond it - not further)
    if n and d * (float(t[-1]) - tw) > unitz + 64 * 2.3e-16 * max(1.0, abs(tw)):
        rec.violate("prefix_beyond_singularity", "rows_recorded_beyond_the_blow_up_time", feats, t_last=float(t[-1]), blow_up_time=tw, allowance=unitz)
    # every recorded row is an ACCEPTED step of the smooth problem: accurate to tolerance (rows inside the window would carry the unresolved term)
    errp = max(float(np.max(np.abs(y[k][:2].astype(np.longdouble) - base.ystar(float(t[k]))))) for k in range(n))
    unit = 200 * rtol * (1 + float(np.max(np.abs(y[:, :2])))) * max(1.0, n ** 0.5)
    rec.worst("prefix_error_over_unit", errp / unit)
    if errp > unit:
        rec.violate("prefix_accuracy", "recorded_state_inaccurate_although_tolerances_could_not_be_met", feats, err=errp, unit=unit, rows=n, raised=str(seg["raised"]))
    if spec["dense"] and not below_resolution:
        sysrun.dense_structure(rec, system, feats, expect_times=t if n > 1 else [], clause_prefix="prefix_")
    for e in system.events:
        lo, hi = sorted([float(t[0]), float(t[-1])])
        if not (lo <= float(e.t) <= hi):
            rec.violate("prefix_events", "event_recorded_beyond_the_accepted_prefix", feats, t_e=float(e.t), range=[lo, hi])
    if seg["raised"] is None:
        return rec.out()
    if below_resolution or not info["explicit"]:
        # (implicit methods solve for stage slopes to an absolute tolerance: with the component left at 1e13.. by the blow-up the resumed run crawls -
        #  DESIGN 9.7 - which is not this property's subject; their failure-time clauses above and reset() below are checked)
        rec.bump("resume_not_attempted")
        system.reset()
        if len(system) != 1 or not np.array_equal(np.asarray(system.y[0]), y0c) or system.nfev != 0 or system.integration_status != "Integration has not been run.":
            rec.violate("reset_state", "reset_after_a_tolerance_failure_not_pristine", dict(feats, phase="reset"), rows=len(system), status=system.integration_status)
        rec.sample = {"spec": spec, "rows_at_failure": n, "blow_up_time": tw, "last_time_at_failure": float(t[-1])}
        return rec.out()
    # ---- the user repairs the right-hand side and resumes
    state["rough"] = False
    seg3 = sysrun.call_integrate(system, events=evs, max_steps=20000)
    f3 = dict(feats, phase="resume")
    rec.bump("resumes_after_tolerance_failure")
    if seg3["raised"] and isinstance(getattr(seg3["exc"], "__cause__", None), sysrun.StepBudgetExceeded):
        rec.bump("resume_exceeded_the_harness_step_budget")      # (the harness's own budget is not a verdict)
    elif seg3["raised"]:
        rec.violate("resume_raised", type(getattr(seg3["exc"], "__cause__", None) or seg3["exc"]).__name__, f3, err=repr(getattr(seg3["exc"], "__cause__", None))[:200])
    else:
        sysrun.segment_invariants(rec, system, seg3, tf, f3, y0_copy=y0c, clock=False, step_tol=step_tol, clause_prefix="resume_")
        tr, yr = np.asarray(system.t), np.asarray(system.y)
        frhs = lambda tt, yy, **k_: f(tt, yy)      # noqa  (the repaired right-hand side)
        sysrun.replay_steps(rec, info, frhs, tr, yr, range(max(0, n - 1), min(n + 1, len(tr) - 1)), f3, rtol, rtol * 1e-2, base.lipschitz(), clause="resume_step_replay")
        err = float(np.max(np.abs(yr[-1][:2].astype(np.longdouble) - base.ystar(float(tr[-1])))))
        unit2 = 200 * rtol * (1 + float(np.max(np.abs(yr[:, :2])))) * max(1.0, len(tr) ** 0.5)
        if err > unit2:
            rec.violate("resume_accuracy", "end_state_after_resume_inaccurate", f3, err=err, unit=unit2)
        # the repaired component decays from whatever value the prefix ended with: w(t) = w_n * exp(-|t - t_n|)
        wex = float(y[-1][-1]) * np.exp(-abs(float(tr[-1]) - float(t[-1])))
        if abs(float(yr[-1][-1]) - wex) > 1e3 * rtol * max(1.0, len(tr) - n) * (abs(float(y[-1][-1])) * 1e-3 + abs(wex)) + 1e-300:
            rec.violate("resume_accuracy", "repaired_component_inaccurate_after_resume", f3, got=float(yr[-1][-1]), want=wex, start=float(y[-1][-1]))
        if spec["dense"]:
            sysrun.dense_structure(rec, system, f3, expect_times=tr, clause_prefix="resume_")
            sol = system.sol
            if sol is not None and sol.t_eval is not None and len(tr) > n:
                for p in sol.y_interpolants:
                    if float(p.t0) == float(t[-1]):
                        fj = f(np.asarray(t[-1]), np.asarray(p.p0))
                        if not np.allclose(np.asarray(p.m0), fj, rtol=1e-12, atol=1e-13):
                            rec.violate("resume_slope_join", "first_piece_after_resume_starts_with_a_stale_slope", f3, err=float(np.max(np.abs(np.asarray(p.m0) - fj))))
                        break
    system.reset()
    fr = dict(feats, phase="reset")
    if len(system) != 1 or not np.array_equal(np.asarray(system.y[0]), y0c) or float(system.t[0]) != t0:
        rec.violate("reset_state", "reset_did_not_restore_initial_row", fr, rows=len(system))
    if len(system.events) != 0:
        rec.violate("reset_state", "events_survive_reset", fr, n=len(system.events))
    if system.nfev != 0:
        rec.violate("reset_state", "nfev_not_zero_after_reset", fr, nfev=system.nfev)
    if system.sol is not None and system.sol.t_eval is not None and len(system.sol.y_interpolants) > 0:
        rec.violate("reset_state", "dense_output_survives_reset", fr, pieces=len(system.sol.y_interpolants))
    if system.integration_status != "Integration has not been run.":
        rec.violate("reset_state", "status_not_pristine_after_reset", fr, status=system.integration_status)
    rec.sample = {"spec": spec, "rows_at_failure": n, "window_start": tw, "last_time_at_failure": float(t[-1]), "calls_into_the_unresolvable_term": state["rough_calls"]}
    return rec.out()


# ---------------------------------------------------------------------------------------------
class Shim:
    """global invocation counter over rhs / events / callbacks; raises the planned fault at invocation k."""

    def __init__(self):
        self.n = 0
        self.k = None
        self.exc = None
        self.fired = False
        self.sites = None      # dry run: list of call-site classes
        self.completed_rhs = 0

    def arm(self, k, exc):
        self.k = k
        self.exc = exc
        self.fired = False

    def tick(self, kind):
        self.n += 1
        if self.sites is not None:
            self.sites.append(classify(kind))
        if self.k is not None and self.n == self.k:
            self.k = None
            self.fired = True
            raise self.exc


def classify(kind):
    if kind == "callback":
        return "callback"
    names = []
    f = sys._getframe(2)
    for _ in range(14):
        if f is None:
            break
        names.append(f.f_code.co_name)
        f = f.f_back
    if kind == "event":
        return "event"
    s = " ".join(names)
    if "estimate" in names:
        return "fd_jacobian"
    if "algebraic_system" in names:
        return "newton"
    if "compute_step" in names or ("step" in names and "ExplicitSymplectic" in s):
        return "stage"
    if "step" in names:
        return "end_slope" if "compute_step" not in names else "stage"
    if "__init__" in names:
        return "constructor"
    if "__call__" in names:
        return "initial_slope"
    return "other"


def build(cfg, shim):
    M = util.methods()
    info = M[cfg["method"]]
    cls = info["cls"] if not cfg["rich"] else util.richardson(info["cls"], cfg["rich"])
    d = cfg["direction"]
    base = Manufactured(2, cfg["pseed"], direction=d, freq=(0.8, 2.0))
    prob = Clocked(base) if not info["splitting"] else None
    t0 = 0.3
    L = 1.6
    tf = t0 + d * L
    if info["splitting"]:
        # even dimension, default kick mask
        def f(t, y, **kw):
            shim.tick("rhs")
            out = base.rhs(t, y)
            shim.completed_rhs += 1
            return out
        y0 = base.ystar(t0).astype(np.float64)
    else:
        def f(t, y, **kw):
            shim.tick("rhs")
            out = prob.rhs(t, y)
            shim.completed_rhs += 1
            return out
        y0 = prob.y0(t0, np.dtype("float64"))
    kw = {}
    if cfg["tol"] is not None:
        kw = dict(rtol=cfg["tol"], atol=cfg["tol"] * 1e-2)
    system = sysrun.make_system(f, y0, t0, tf, L / cfg["nsteps"], cls, dense=cfg["dense"], **kw)
    evs = []
    if cfg["events"]:
        e1 = Ev({"kind": "component", "i": 0, "scale": 3.0, "c": float(base.ystar(t0 + 0.45 * (tf - t0))[0]), "direction": 0, "terminal": False}, len(y0))
        e2 = Ev({"kind": "time", "scale": -2.0, "c": t0 + 0.8 * (tf - t0), "direction": 0, "terminal": False}, len(y0))
        for e in (e1, e2):
            orig = e.__call__

            def wrapped(t, y, *a, _e=e, **k):
                shim.tick("event")
                return Ev.__call__(_e, t, y, *a, **k)
            wrapped.direction = e.direction
            wrapped.is_terminal = e.is_terminal
            evs.append(wrapped)

    def cb(s):
        shim.tick("callback")
        if cfg.get("inflate"):
            s.dt = s.dt * cfg["inflate"]
    return system, evs, [cb], y0, t0, tf, info, base


def _dry_count(cfg):
    from vf import core
    core.activate_repo()
    shim = Shim()
    system, evs, cbs, y0, t0, tf, info, base = build(cfg, shim)
    n0 = shim.n
    seg = sysrun.call_integrate(system, events=evs or None, callback=cbs, max_steps=2000)
    if seg["raised"]:
        raise RuntimeError("reference run failed: %r" % (getattr(seg["exc"], "__cause__", None),))
    return shim.n - n0


def _snapshot(system):
    return dict(t=np.array(system.t, copy=True), y=np.array(system.y, copy=True),
                ev=[(float(e.t), np.array(e.y, copy=True)) for e in system.events], nfev=int(system.nfev))


def run_case(spec):
    if spec.get("kind") == "tolfail":
        return _tolfail(spec)
    cfg = spec["cfg"]
    rec = util.Rec(sig="%s|%s|%d|%s|%d-%d|%s" % (cfg["method"], cfg["rich"], cfg["direction"], cfg["dense"], spec["ks"][0], spec["ks"][-1], spec["double"]))
    # ---- reference (unfaulted) run, with call-site labels
    shim = Shim()
    system, evs, cbs, y0, t0, tf, info, base = build(cfg, shim)
    n_ctor = shim.n
    shim.sites = []
    seg = sysrun.call_integrate(system, events=evs or None, callback=cbs, max_steps=2000)
    sites = shim.sites
    ref = _snapshot(system)
    n_ref = shim.n - n_ctor
    feats0 = {"method": cfg["method"], "richardson": cfg["rich"], "family": info["family"], "direction": cfg["direction"], "dense": cfg["dense"]}
    if n_ref != spec["n_total"]:
        rec.violate("nondeterministic_invocation_count", "reference_run_invocations_changed_between_processes", feats0, got=n_ref, planned=spec["n_total"])
        return rec.out()
    tolu = (cfg["tol"] or 1e-6)
    for k, fname in zip(spec["ks"], spec["faults"]):
        site = sites[k - 1]
        feats = dict(feats0, site=site, fault=fname)
        rec.bump("crash_points")
        rec.bump("site_" + site)
        shim = Shim()
        system, evs, cbs, y0, t0, tf, info, base = build(cfg, shim)
        y0c = y0.copy()
        exc = FAULTS[fname]("fault@%d" % k)
        slog = None
        if not cfg["rich"]:
            from vf.instrument import StepLog
            slog = StepLog(system.integrator)
            cbs = list(cbs) + [lambda s_, _l=slog: _l.attempts.append({"boundary": 1})]
        shim.arm(shim.n + k, exc)
        seg = sysrun.call_integrate(system, events=evs or None, callback=cbs, max_steps=2000)
        if slog is not None and shim.fired:
            tail = []
            for a in slog.attempts:
                tail = [] if "boundary" in a else tail + [a]
            if len(tail) >= 2 and any("boundary" in a for a in slog.attempts):
                rec.bump("faults_inside_a_retry_of_a_rejected_step")
        if not shim.fired:
            rec.violate("fault_not_reached", "invocation_order_not_deterministic", feats, k=k)
            continue
        rec.bump("faults_fired")
        rec.nontrivial = True
        swallowed = False
        if fname == "kbd":
            rec.bump("keyboard_interrupts")
            if seg["exc"] is not exc:
                rec.violate("keyboard_interrupt", "keyboard_interrupt_not_propagated_as_itself", feats, got=repr(seg["exc"])[:200])
        elif seg["raised"] is None:
            if fname == "value" and site in ("stage", "end_slope", "newton", "fd_jacobian", "initial_slope"):
                swallowed = True
                rec.bump("value_error_retried_by_integrator")
            else:
                rec.violate("failure_not_reported", "integrate_returned_normally_although_a_user_callable_raised", feats, k=k)
                continue
        else:
            import desolver as de
            if not isinstance(seg["exc"], de.exception_types.FailedIntegration):
                rec.violate("failure_type", "wrong_exception_type", feats, got=seg["raised"])
            else:
                c = seg["exc"].__cause__
                depth = 0
                while c is not None and c is not exc and isinstance(c, de.exception_types.FailedIntegration) and depth < 4:
                    c = c.__cause__       # a failure inside the terminal-event landing is wrapped twice
                    depth += 1
                if c is not exc:
                    rec.violate("failure_cause", "original_cause_not_carried", feats, got=repr(seg["exc"].__cause__)[:200])
        if not swallowed:
            st = system.integration_status
            if system.success:
                rec.violate("failure_status", "success_true_after_failure", feats, status=st)
            if fname == "kbd":
                if "KeyboardInterrupt" not in st:
                    rec.violate("failure_status", "status_does_not_report_keyboard_interrupt", feats, status=st)
            elif "failed" not in st.lower():
                rec.violate("failure_status", "status_does_not_report_failure", feats, status=st)
        # ---- the recorded trajectory is exactly a prefix of the reference run
        t = np.asarray(system.t)
        y = np.asarray(system.y)
        n = len(t)
        f2 = dict(feats)
        if swallowed:
            # the integrator retried the step (for implicit methods with per-stage Jacobians, so the step sequence may differ):
            # the run must simply be a consistent completed run that agrees with the reference to tolerance
            sysrun.segment_invariants(rec, system, seg, tf, f2, y0_copy=y0c, clock=not info["splitting"], step_tol=0.0 if info["explicit"] else tolu, clause_prefix="retried_")
            # (the retried step may change the step sequence of the non-adaptive implicit methods, whose accuracy is that of their - growing - steps:
            #  both runs are compared with the exact solution, the retried one may be as wrong as the reference, not more)
            ref_err_ = float(np.max(np.abs(ref["y"][-1][:2] - np.asarray(base.ystar(float(ref["t"][-1])), dtype=np.float64))))
            err_ = float(np.max(np.abs(y[-1][:2] - np.asarray(base.ystar(float(t[-1])), dtype=np.float64))))
            if err_ > 20 * (ref_err_ + 10 * tolu) + 1e-12:
                rec.violate("retried_run_inconsistent", "run_completed_after_swallowed_error_but_is_less_accurate_than_the_reference", f2, rows=[n, len(ref["t"])],
                            err=err_, reference_error=ref_err_)
        else:
            if n > len(ref["t"]) or not (np.array_equal(t, ref["t"][:n]) and np.array_equal(y, ref["y"][:n])):
                rec.violate("prefix", "recorded_rows_are_not_a_prefix_of_the_unfaulted_run", f2, rows=n, ref_rows=len(ref["t"]))
            sysrun.segment_invariants(rec, system, seg, tf, f2, y0_copy=y0c, require_reach=False, clock=not info["splitting"],
                                      step_tol=0.0 if info["explicit"] else tolu, clause_prefix="prefix_")
            evl = [(float(e.t), np.asarray(e.y)) for e in system.events]
            lo, hi = sorted([float(t[0]), float(t[-1])])
            for (te, ye) in evl:
                if not (lo <= te <= hi):
                    rec.violate("prefix_events", "event_recorded_beyond_the_accepted_prefix", f2, t_e=te, range=[lo, hi])
            if len(evl) > len(ref["ev"]) or any(a[0] != b[0] or not np.array_equal(a[1], b[1]) for a, b in zip(evl, ref["ev"])):
                rec.violate("prefix_events", "events_are_not_a_prefix_of_the_unfaulted_run", f2, n=len(evl), ref=len(ref["ev"]))
        if cfg["dense"]:
            sysrun.dense_structure(rec, system, f2, expect_times=t if n > 1 else [], clause_prefix="prefix_", substeps=bool(cfg["rich"]))
        if np.array_equal(y0, y0c) is False:
            rec.violate("caller_data", "y0_modified", f2)
        # ---- (optional) second fault during the resume
        if spec["double"] and not swallowed:
            rec.bump("double_faults")
            exc2 = InjectedFault("second")
            shim.arm(shim.n + 1 + (k % 7), exc2)
            seg2 = sysrun.call_integrate(system, events=evs or None, callback=cbs, max_steps=2000)
            t2 = np.asarray(system.t)
            if shim.fired and seg2["raised"] is not None:
                sysrun.segment_invariants(rec, system, seg2, tf, dict(f2, phase="second_fault"), y0_copy=y0c, require_reach=False, clause_prefix="prefix2_")
                if cfg["dense"]:
                    sysrun.dense_structure(rec, system, dict(f2, phase="second_fault"), expect_times=t2 if len(t2) > 1 else [], clause_prefix="prefix2_", substeps=bool(cfg["rich"]))
            shim.k = None
        # ---- resume: continues correctly from the end of the prefix
        if not swallowed:
            shim.k = None
            seg3 = sysrun.call_integrate(system, events=evs or None, callback=cbs, max_steps=4000)
            f3 = dict(f2, phase="resume")
            rec.bump("resumes_checked")
            if seg3["raised"]:
                rec.violate("resume_raised", type(getattr(seg3["exc"], "__cause__", None) or seg3["exc"]).__name__, f3, err=repr(getattr(seg3["exc"], "__cause__", None))[:200])
            else:
                sysrun.segment_invariants(rec, system, seg3, tf, f3, y0_copy=y0c, clock=not info["splitting"], step_tol=0.0 if info["explicit"] else tolu, clause_prefix="resume_")
                tr = np.asarray(system.t)
                yr = np.asarray(system.y)
                # the first steps after the resume start from the last accepted row: nothing of the abandoned attempt may leak into them
                if not cfg["rich"]:
                    frhs = (lambda tt, yy, **k_: base.rhs(tt, yy)) if info["splitting"] else (lambda tt, yy, _p=Clocked(base), **k_: _p.rhs(tt, yy))
                    sysrun.replay_steps(rec, info, frhs, tr, yr, range(max(0, n - 1), min(n + 1, len(tr) - 1)), f3, cfg["tol"] or 1e-6, (cfg["tol"] or 1e-6) * 1e-2,
                                        base.lipschitz(), clause="resume_step_replay")
                # (the library keeps the failure status sticky until reset(); the property fixes the status only at the failure)
                # end state against the exact solution at the level of the reference run's own error
                ref_err = float(np.max(np.abs(ref["y"][-1][:2] - np.asarray(base.ystar(float(ref["t"][-1])), dtype=np.float64))))
                err = float(np.max(np.abs(yr[-1][:2] - np.asarray(base.ystar(float(tr[-1])), dtype=np.float64))))
                rec.worst("resume_end_error_over_reference_error", err / (ref_err + 10 * tolu + 1e-13))
                if err > 20 * (ref_err + 10 * tolu) + 1e-12:
                    rec.violate("resume_accuracy", "end_state_after_resume_inaccurate", f3, err=err, reference_error=ref_err)
                if cfg["dense"]:
                    sysrun.dense_structure(rec, system, f3, expect_times=tr, clause_prefix="resume_", substeps=bool(cfg["rich"]))
                    sol = system.sol
                    # slope continuity at the junction: the first new piece starts with f at the last accepted state
                    if sol is not None and sol.t_eval is not None and n >= 1 and len(tr) > n and not cfg["rich"]:
                        tj = t[-1]
                        for p in sol.y_interpolants:
                            if float(p.t0) == float(tj):
                                fj = (base.rhs(np.asarray(tj), np.asarray(p.p0)) if info["splitting"] else Clocked(base).rhs(np.asarray(tj), np.asarray(p.p0)))
                                if not np.allclose(np.asarray(p.m0), fj, rtol=1e-12, atol=1e-13):
                                    rec.violate("resume_slope_join", "first_piece_after_resume_starts_with_a_stale_slope", f3, err=float(np.max(np.abs(np.asarray(p.m0) - fj))))
                                break
        # ---- reset restores a pristine system; rerun reproduces the reference bit-for-bit
        system.reset()
        rec.bump("resets_checked")
        fr = dict(f2, phase="reset")
        if len(system) != 1 or not np.array_equal(np.asarray(system.y[0]), y0c) or float(system.t[0]) != t0:
            rec.violate("reset_state", "reset_did_not_restore_initial_row", fr, rows=len(system))
        if len(system.events) != 0:
            rec.violate("reset_state", "events_survive_reset", fr, n=len(system.events))
        if system.nfev != 0:
            rec.violate("reset_state", "nfev_not_zero_after_reset", fr, nfev=system.nfev)
        if system.sol is not None and system.sol.t_eval is not None and len(system.sol.y_interpolants) > 0:
            rec.violate("reset_state", "dense_output_survives_reset", fr, pieces=len(system.sol.y_interpolants))
        if system.integration_status != "Integration has not been run.":
            rec.violate("reset_state", "status_not_pristine_after_reset", fr, status=system.integration_status)
        seg4 = sysrun.call_integrate(system, events=evs or None, callback=cbs, max_steps=2000)
        if seg4["raised"]:
            rec.violate("reset_rerun", "rerun_after_reset_raised", fr, err=repr(getattr(seg4["exc"], "__cause__", None))[:200])
        else:
            t4 = np.asarray(system.t)
            y4 = np.asarray(system.y)
            if len(t4) != len(ref["t"]) or not (np.array_equal(t4, ref["t"]) and np.array_equal(y4, ref["y"])):
                rec.violate("reset_rerun", "rerun_after_reset_differs_from_fresh_run", fr, rows=[len(t4), len(ref["t"])],
                            maxdiff=float(np.max(np.abs(y4[:min(len(y4), len(ref["y"]))] - ref["y"][:min(len(y4), len(ref["y"]))]))))
    rec.sample = {"cfg": cfg, "k_range": [spec["ks"][0], spec["ks"][-1]], "invocations_in_reference_run": n_ref,
                  "site_histogram": {s: sites.count(s) for s in sorted(set(sites))}}
    return rec.out()


def evidence_extra(tier, results, counters):
    hist = {k[5:]: v for k, v in counters.items() if k.startswith("site_")}
    return {"crash_points_by_call_site": hist, "configurations": len(set(str(r.get("spec", {}).get("cfg")) for r in results))}
