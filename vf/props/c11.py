"""C11 - implicit methods are unconditionally stable on stiff decay; the step agrees with the stability function."""
import numpy as np

from vf import util
from vf.instrument import StepLog
from vf.problems import rng_for

LEVEL = "exploration"
RULE = ("kinds: step (real integrator on y'=lambda*y / damped 2x2 blocks with the exact Jacobian hooked, z=h*lambda in the closed left half-plane, "
        "|z| from 1e-3 to 1e8: |y1|/|y0| <= 1 and equal to |R(z')| of the class tableau for the accepted h'), tableau (|R|<=1 on a log grid of the "
        "closed left half-plane incl. the imaginary axis; no eigenvalue of A with Re<=0 other than 0); non-trivial = step accepted; distinct by "
        "(method, |z| decade, arg class, sign of h, dtype)")
ASSUMPTIONS = ["tolerances are scaled to 1e3*eps*max(1,|lambda|) so that the Newton iteration can converge; comparisons allow K=50 times the induced error h*tol*sum|b|"]
RULE += " Strata added in the fourth seeding round: Steps handed back by the library's own controller after rejected attempts (requested direction of time, R(z) of the accepted step)."
FLOORS = {"quick": {"accepted_steps": 300, "accepted_steps_z_ge_1e4": 60, "tableau_points": 2000, "usertol_steps_h_ge_1e3": 40, "chained_steps": 150, "own_controller_steps": 60, "own_controller_steps_after_a_rejected_attempt": 12},
          "thorough": {"accepted_steps": 3000, "accepted_steps_z_ge_1e4": 500, "tableau_points": 20000, "usertol_steps_h_ge_1e3": 400, "chained_steps": 150, "own_controller_steps": 400, "own_controller_steps_after_a_rejected_attempt": 80}}
K = 5.0


def implicit_methods():
    M = util.methods()
    return [n for n, i in M.items() if not i["explicit"]]


def gen_cases(tier, seed):
    rng = rng_for(1101, seed)
    cases = []
    reps = 26 if tier == "quick" else 220
    for name in implicit_methods():
        cases.append(dict(kind="tableau", method=name, cost=2))
        for lz in (4.5, 6.0, 7.5):   # core battery: stiff real decay at large |z| for every method
            cases.append(dict(kind="step", method=name, logz=lz, arg=180.0, hsign=1, hmag=0.1, dtype="float64", pseed=int(rng.integers(1 << 30)), cost=3))
        for lz, ang in ((0.5, 180.0), (1.7, 180.0), (1.7, 120.0), (2.6, 180.0), (1.0, 250.0)):
            # consecutive calls on ONE integrator object, each starting exactly where the previous step ended (what OdeSystem does from its
            # second step on): every one of them must be the step of the stability function
            cases.append(dict(kind="step", method=name, logz=lz, arg=ang, hsign=int(rng.choice([-1, 1])), hmag=float(10 ** rng.uniform(-2, 0)), dtype="float64",
                              chain=4, pseed=int(rng.integers(1 << 30)), cost=6))
        for r in range(max(4, reps // 3)):
            # the same z reached with an enormous step and a tiny rate, under ordinary user tolerances (not scaled to lambda)
            cases.append(dict(kind="step", method=name, logz=float(rng.uniform(0, 6)), arg=float(rng.choice([180.0, 135.0, 108.0, 252.0])), hsign=int(rng.choice([-1, 1])),
                              hmag=float(10 ** rng.uniform(1, 16)), dtype="float64", usertol=float(rng.choice([1e-6, 1e-9])), pseed=int(rng.integers(1 << 30)), cost=3))
        rng_main, rng = rng, rng_for(1102, seed, len(cases))      # (own stream: the cases below keep the random numbers they always had)
        for r in range(max(6, reps // 3)):
            # the library's OWN step controller left in place (rejections by the embedded estimate, retries): whatever step is finally handed back
            # - shortened or not - is a step of the stability function in the requested direction of time
            cases.append(dict(kind="step", method=name, logz=float(rng.uniform(-0.5, 5)), arg=float(rng.choice([180.0, 180.0, 135.0, 225.0, 100.0])), hsign=int(rng.choice([-1, 1, -1])),
                              hmag=float(10 ** rng.uniform(-2, 1)), dtype="float64", usertol=float(rng.choice([1e-6, 1e-8, 1e-10])), own_controller=True,
                              pseed=int(rng.integers(1 << 30)), cost=4))
        rng = rng_main
        for r in range(reps):
            logz = float(rng.uniform(-3, 8))
            ang = float(rng.choice([180.0, 180.0, 90.0, 270.0, float(rng.uniform(90, 270))]))
            hs = int(rng.choice([-1, 1]))
            hmag = float(10 ** rng.uniform(-3, 1))
            cases.append(dict(kind="step", method=name, logz=logz, arg=ang, hsign=hs, hmag=hmag, dtype="float64" if rng.random() < 0.85 else "longdouble",
                              pseed=int(rng.integers(1 << 30)), cost=3))
    return cases


def stability_function(cls, z):
    A = np.asarray(cls.tableau_intermediate, dtype=np.longdouble)[:, 1:].astype(np.clongdouble)
    b = np.asarray(cls.tableau_final, dtype=np.longdouble)[0, 1:].astype(np.clongdouble)
    s = A.shape[0]
    z = np.clongdouble(z)
    Mx = np.eye(s, dtype=np.clongdouble) - z * A
    # Gaussian elimination in extended precision (numpy.linalg does not support clongdouble)
    x = _solve(Mx, np.ones(s, dtype=np.clongdouble))
    return 1 + z * np.sum(b * x)


def _solve(Mx, rhs):
    Mx = Mx.copy()
    rhs = rhs.copy()
    n = len(rhs)
    for i in range(n):
        p = i + int(np.argmax(np.abs(Mx[i:, i])))
        if p != i:
            Mx[[i, p]] = Mx[[p, i]]
            rhs[[i, p]] = rhs[[p, i]]
        for j in range(i + 1, n):
            f = Mx[j, i] / Mx[i, i]
            Mx[j, i:] -= f * Mx[i, i:]
            rhs[j] -= f * rhs[i]
    x = np.zeros(n, dtype=np.clongdouble)
    for i in range(n - 1, -1, -1):
        x[i] = (rhs[i] - np.sum(Mx[i, i + 1:] * x[i + 1:])) / Mx[i, i]
    return x


def run_case(spec):
    M = util.methods()
    info = M[spec["method"]]
    cls = info["cls"]
    if spec["kind"] == "tableau":
        return _tableau(spec, info, cls)
    import desolver as de
    dt = np.dtype("float64") if spec["dtype"] == "float64" else np.dtype(np.longdouble)
    eps = max(float(np.finfo(dt).eps), 2.3e-16)     # the linear algebra of the extended-precision stage solve is float64
    zmag = 10 ** spec["logz"]
    ang = np.deg2rad(spec["arg"])
    h = spec["hsign"] * spec["hmag"]
    lam = zmag / spec["hmag"] * np.exp(1j * ang) * spec["hsign"]     # z = h*lam has argument `arg`
    # snap exactly onto the axes so that Re(z) <= 0 holds in floating point
    a, b = float(lam.real), float(lam.imag)
    if spec["arg"] in (90.0, 270.0):
        a = 0.0
    if spec["arg"] == 180.0:
        b = 0.0
    z = complex(h * a, h * b)
    decade = int(np.floor(spec["logz"]))
    argc = "real" if b == 0.0 else ("imag" if a == 0.0 else "complex")
    rec = util.Rec(sig="%s|%d|%s|%d|%s" % (spec["method"], decade, argc, spec["hsign"], spec["dtype"]))
    feats = {"method": spec["method"], "family": info["family"], "z_decade": decade, "arg_class": argc, "hsign": spec["hsign"], "dtype": spec["dtype"]}
    if z.real > 0:
        rec.skipped = "Re z > 0 after rounding"
        return rec.out()
    real = (b == 0.0)
    if real:
        Amat = np.array([[a]], dtype=dt)
        y0 = np.array([1.0], dtype=dt)
    else:
        Amat = np.array([[a, -b], [b, a]], dtype=dt)
        rng = rng_for(1102, spec["pseed"])
        y0 = np.asarray(rng.uniform(-1, 1, 2), dtype=dt)
    lam_abs = float(np.hypot(a, b))

    def f(t, y, **kw):
        return Amat @ y

    def jac(t, y, **kw):
        return Amat
    tol = max(1e3 * eps * max(1.0, lam_abs), 1e3 * eps)
    usertol = spec.get("usertol")
    if usertol:
        tol = usertol
        feats["tolerance"] = "user"
    intg = cls(y0.shape, dtype=dt, rtol=tol, atol=tol)
    if spec.get("own_controller"):
        feats["controller"] = "own"
    else:
        util.passthrough_adaptation(intg)
    slog = StepLog(intg)
    rhs = de.DiffRHS(f)
    rhs.hook_jacobian_call(jac)
    t_now = np.asarray(0.0, dtype=dt)
    sb = float(np.sum(np.abs(cls.tableau_final[0, 1:])))
    for link in range(1 + int(spec.get("chain", 0))):
        fl = dict(feats, link=link) if spec.get("chain") else feats
        try:
            _, (dT, dY) = intg(rhs, t_now, y0, {}, np.asarray(h, dtype=dt))
        except Exception as e:
            rec.bump("not_accepted_" + type(e).__name__)
            if link == 0:
                rec.sample = {"spec": spec, "raised": type(e).__name__}
            return rec.out()
        hacc = float(dT)
        if spec.get("own_controller"):
            rec.bump("own_controller_steps")
            if len(slog.attempts) > 1 + link:
                rec.bump("own_controller_steps_after_a_rejected_attempt")
            if hacc * h <= 0:
                rec.violate("stiff_decay_growth", "accepted_step_runs_against_the_requested_direction_of_time", fl, requested=float(h), accepted=hacc)
                return rec.out()
        zacc = complex(hacc * a, hacc * b)
        y1 = (y0 + dY).astype(np.longdouble)
        ratio = float(np.sqrt(np.sum(y1 ** 2)) / np.sqrt(np.sum(y0.astype(np.longdouble) ** 2)))
        R = stability_function(cls, zacc)
        Rabs = float(abs(R))
        slack = K * (abs(hacc) * tol * sb * np.sqrt(len(y0)) / float(np.sqrt(np.sum(y0 ** 2))) + 64 * eps * info["stages"])
        slack_h = slack
        if usertol:
            # under a user tolerance the accepted STATE must be right to that tolerance whatever the step size: no factor |h|
            slack = K * (tol * sb * np.sqrt(len(y0)) / float(np.sqrt(np.sum(y0 ** 2))) + 64 * eps * info["stages"])
            rec.bump("usertol_steps")
            if abs(hacc) >= 1e3:
                rec.bump("usertol_steps_h_ge_1e3")
        rec.bump("accepted_steps")
        if link > 0:
            rec.bump("chained_steps")
        if abs(zacc) >= 1e4:
            rec.bump("accepted_steps_z_ge_1e4")
        if abs(hacc) < abs(h):
            rec.bump("accepted_after_shortening")
        rec.nontrivial = True
        rec.worst("growth_minus_one_over_slack", (ratio - 1.0) / slack)
        rec.worst("ratio_vs_R_over_slack", abs(ratio - Rabs) / slack)
        if link == 0:
            rec.sample = {"spec": spec, "z_accepted": [zacc.real, zacc.imag], "ratio": ratio, "abs_R": Rabs, "attempts": len(slog.attempts)}

        def mech(default, excess):
            # attribution: the stage equations are solved to an ABSOLUTE tolerance on the stage slopes (0.5*(atol+rtol|y|)) that is not
            # divided by the step, so the state error can reach |h| times the tolerance
            if usertol and abs(hacc) > 1 and excess <= 10 * slack_h:
                return "stage_tolerance_not_scaled_by_step_size"
            return default
        if slack > 0.05:
            rec.bump("links_too_small_to_judge")      # the state decayed below the solver tolerance: nothing can be said about this link
            break
        if ratio > 1.0 + slack:
            rec.violate("stiff_decay_growth", mech("accepted_step_increases_norm_on_decaying_problem", ratio - 1.0), fl, ratio=ratio, z=[zacc.real, zacc.imag], slack=slack, abs_R=Rabs,
                        h=hacc, tol=tol)
        if abs(ratio - Rabs) > slack:
            rec.violate("stability_function_mismatch", mech("step_disagrees_with_stability_function_of_tableau", abs(ratio - Rabs)), fl, ratio=ratio, abs_R=Rabs, z=[zacc.real, zacc.imag],
                        slack=slack, h=hacc, tol=tol)
        # the next call starts exactly at the end of this step
        t_now = np.asarray(t_now + dT, dtype=dt)
        y0 = np.asarray(y0 + dY, dtype=dt)
        if not np.all(np.isfinite(y0)) or float(np.max(np.abs(y0))) == 0.0:
            break
    return rec.out()


def _tableau(spec, info, cls):
    rec = util.Rec(sig="tableau|%s" % spec["method"])
    feats = {"method": spec["method"], "family": info["family"]}
    worst = 0.0
    wz = None
    n = 0
    mags = 10 ** np.linspace(-3, 8, 45)
    angs = np.deg2rad(np.concatenate([[90.0, 270.0, 180.0], np.linspace(90, 270, 41)]))
    for m in mags:
        for th in angs:
            z = complex(m * np.cos(th), m * np.sin(th))
            if abs(np.cos(th)) < 1e-12:
                z = complex(0.0, z.imag)
            if z.real > 0:
                continue
            R = abs(stability_function(cls, z))
            n += 1
            if R > worst:
                worst, wz = float(R), z
    rec.bump("tableau_points", n)
    rec.nontrivial = True
    rec.worst("max_abs_R_minus_one", worst - 1.0)
    if worst > 1 + 1e-9:
        rec.violate("stability_function_bound", "abs_R_exceeds_one_in_closed_left_half_plane", feats, abs_R=worst, z=[wz.real, wz.imag])
    A = np.asarray(cls.tableau_intermediate, dtype=np.float64)[:, 1:]
    ev = np.linalg.eigvals(A)
    bad = [complex(e) for e in ev if abs(e) > 1e-12 and e.real <= 1e-12]
    rec.sample = {"spec": spec, "max_abs_R": worst, "eig_A": [[float(e.real), float(e.imag)] for e in ev]}
    if bad:
        # a pole of R at z = 1/mu with Re(mu) <= 0 lies in the closed left half-plane
        rec.violate("stability_function_pole", "eigenvalue_of_A_with_nonpositive_real_part", feats, eig=[[e.real, e.imag] for e in bad])
    return rec.out()


def post_check(tier, results, counters):
    seen = {}
    for r in results:
        sp = r.get("spec", {})
        if sp.get("kind") == "step" and r.get("counters", {}).get("accepted_steps_z_ge_1e4"):
            seen[sp["method"]] = seen.get(sp["method"], 0) + 1
    missing = [m for m in implicit_methods() if seen.get(m, 0) < 1]
    return ["no accepted step at |z| >= 1e4 observed for: %s" % missing] if missing else []
