"""C01 - every integrator attains its declared order (DESIGN.md section 4, C01).

Primary oracle (noise free): graded polynomial systems.  A method of order >= g reproduces the exact rational
solution of a grade-g system to rounding for every step size; a violated order condition of order <= g leaves
an O(1) defect.  Secondary: asymptotic slope on manufactured smooth problems (order <= 6).
"""
from fractions import Fraction

import numpy as np

from vf import util
from vf.problems import GradedPoly, Manufactured, Hamiltonian, dtype_of, rng_for

LEVEL = "exploration"
RULE = ("one case = (probe kind, method or Richardson(base,levels), dtype, problem seed); exactness probes run the real "
        "integrator for h in {+1,-0.75,+1.5} on a random graded polynomial system of grade = declared order and compare "
        "with the exact rational solution; non-trivial = step accepted with |dTime|>=0.5|h|, the system has a top-weight "
        "term and the exact increment exceeds 1e-3; distinct by (kind, method, grade, dtype, seed)")
ASSUMPTIONS = ["order is certified on the executed problem classes (genericity of random graded systems), not by enumerating trees",
               "class tableaus are float64: exactness threshold 1e-10 relative (RK14(12) published coefficients are ~3e-13 accurate)"]
STEPS = [1.0, -0.75, 1.5]
TAU = {"float64": 1e-10, "longdouble": 1e-10, "float32": 3e-4}
FLOORS = {"quick": {"exact_probes_accepted": 150, "embedded_probes": 9, "richardson_probes_accepted": 12, "slope_probes": 20, "global_order_probes": 15, "global_order_runs_retuned": 15, "exact_retry_probes": 30, "exact_retry_probes_with_a_rejected_attempt": 12, "richardson_probes_at_loose_tolerance": 10},
          "thorough": {"exact_probes_accepted": 900, "embedded_probes": 27, "richardson_probes_accepted": 200, "slope_probes": 60, "global_order_probes": 45, "global_order_runs_retuned": 15, "exact_retry_probes": 30, "exact_retry_probes_with_a_rejected_attempt": 12, "richardson_probes_at_loose_tolerance": 30}}
CASE_TIMEOUT = 900
HARMONIC_ONLY = ("ABAs5o6HSolver", "BABs9o7HSolver")


def gen_cases(tier, seed):
    M = util.methods()
    cases = []
    names = list(M)
    nseeds = 1 if tier == "quick" else 4
    for name in names:
        info = M[name]
        p = info["order"]
        for k in range(nseeds):
            for dt in (["float64", "longdouble"] if tier == "thorough" or k == 0 else ["float64"]):
                if dt == "longdouble" and not info["explicit"] and p > 6 and tier == "quick":
                    continue
                cases.append(dict(kind="exact", method=name, grade=p, dtype=dt, pseed=1000 * seed + k,
                                  nper=1 if (tier == "quick" or p > 8) else 2, cost=1 + (p / 4.0) ** 2 * (1 if info["explicit"] else 6)))
        if p <= 5 and info["explicit"]:
            cases.append(dict(kind="exact", method=name, grade=p, dtype="float32", pseed=1000 * seed, nper=1, cost=1))
        if tier == "thorough":
            for g in range(1, p):
                cases.append(dict(kind="exact", method=name, grade=g, dtype="float64", pseed=1000 * seed + 7, nper=1,
                                  cost=1 + (g / 4.0) ** 2 * (1 if info["explicit"] else 6)))
        if info["adaptive"]:
            for dt in (["float64"] if tier == "quick" else ["float64", "longdouble", "float32"]):
                cases.append(dict(kind="embedded", method=name, dtype=dt, pseed=seed, cost=1))
        if p <= 6:
            for sgn in (1, -1):
                for k in range(1 if tier == "quick" else 3):
                    cases.append(dict(kind="slope", method=name, sign=sgn, pseed=1000 * seed + k, cost=4 if info["explicit"] else 12))
    # Richardson wrappers
    rng = rng_for(101, seed)
    if tier == "quick":
        bases = ["EulerSolver", "MidpointSolver", "RK4Solver", "RK45CKSolver", "BackwardEuler", "ImplicitMidpoint", "SymplecticEulerSolver"]
        extra = [n for n in names if n not in bases and M[n]["order"] <= 8]
        bases += [extra[int(i)] for i in rng.choice(len(extra), size=3, replace=False)]
        levels = {b: [2, 3, 4] for b in bases}
        levels["RK4Solver"] = [2, 3, 4, 5]
    else:
        bases = [n for n in names if M[n]["order"] <= 10]
        levels = {b: [2, 3, 4, 5] for b in bases}
    for b in (bases[:4] if tier == "quick" else bases):
        for order_ in ("ascending", "descending"):
            cases.append(dict(kind="richardson_sequence", method=b, order=order_, dtype="float64", pseed=1000 * seed + 77,
                              cost=(1 + ((M[b]["order"] + 1) / 4.0) ** 2 * (1 if M[b]["explicit"] else 6)) * 30))
    for b in bases:
        for n in levels[b]:
            p = M[b]["order"]
            g = p if n == 2 else p + 1
            cases.append(dict(kind="richardson", method=b, levels=n, grade=g, dtype="float64", pseed=1000 * seed + n,
                              cost=(1 + (g / 4.0) ** 2 * (1 if M[b]["explicit"] else 6)) * (2 ** (n - 1))))
            if M[b]["explicit"]:
                # the order of the extrapolated step does not depend on the tolerances the wrapper was built with (loose ones included)
                cases.append(dict(kind="richardson", method=b, levels=n, grade=g, dtype="float64", pseed=1000 * seed + n + 50, tol=float(rng.choice([1e-1, 1e-2, 1e-4])),
                                  cost=(1 + (g / 4.0) ** 2) * (2 ** (n - 1))))
    # exactness holds for every step size, hence also for a step that the method's own controller first rejects and then retries shorter, and for
    # the second call on an integrator object that continues bit-exactly where its first step ended (cached end slopes, FSAL)
    for name in [n for n in names if M[n]["adaptive"] and not (M[n]["stages"] >= 10 and not M[n]["explicit"])]:
        for sgn in (1, -1):
            cases.append(dict(kind="exact_retry", method=name, grade=M[name]["order"], sign=sgn, pseed=1000 * seed + int(rng.integers(1000)), cost=3 if M[name]["explicit"] else 12))
    # "halving the step divides the global error by about 2^p": whole runs through OdeSystem with the fixed-step explicit methods,
    # over spans of every sign pattern (away from the origin, towards it, across it) and both directions
    gspans = [(0.0, 1.0), (1.0, 0.0), (-1.5, -0.5), (-0.5, -1.5), (-1.0, 0.5), (0.5, -1.0), (1.5, 0.5), (2.0, 3.0)]
    gnames = [n for n in names if M[n]["explicit"] and not M[n]["adaptive"] and not M[n]["splitting"]]
    for name in gnames:
        for sp in ([gspans[int(i)] for i in rng.choice(len(gspans), size=3, replace=False)] if tier == "quick" else gspans):
            cases.append(dict(kind="global", method=name, span=list(sp), pseed=1000 * seed + int(rng.integers(1000)), cost=4))
        # the same, with the span covered by two calls and a parameter of the right-hand side changed in between (a time-rescaling, so the exact
        # solution stays known): the order must survive the change of program
        sp = gspans[int(rng.integers(len(gspans)))]
        cases.append(dict(kind="global", method=name, span=list(sp), retune=1.7, pseed=1000 * seed + int(rng.integers(1000)), cost=5))
    return cases


# ---------------------------------------------------------------------------------------------
def _one_exact_step(cls_factory, prob, dtype, h, splitting, tight=True, tol=None):
    """Run the REAL integrator once; returns (accepted, dTime(float), y1(longdouble array), info)."""
    import desolver as de
    dt = dtype_of(dtype)
    kw = {}
    if tight and dtype != "float32":
        kw = dict(rtol=1e-13, atol=1e-13)
    if tol is not None:
        kw = dict(rtol=tol, atol=tol)
    intg = cls_factory((prob.dim,), dtype=dt, **kw)
    util.passthrough_adaptation(intg)
    rhs = de.DiffRHS(prob.rhs)
    y0 = np.array([float(v) for v in prob.y0], dtype=dt)
    t0 = np.asarray(float(prob.t0), dtype=dt)
    hh = np.asarray(h, dtype=dt)
    try:
        _, (dT, dY) = intg(rhs, t0, y0, {}, hh)
    except Exception as e:  # FailedToMeetTolerances etc: "no acceptance", only counted
        return False, None, None, {"raised": type(e).__name__}
    return True, float(dT), (y0.astype(np.longdouble) + np.asarray(dY, dtype=np.longdouble)), {"intg": intg}


def _exact_defect(prob, dT, y1):
    ex = prob.exact(Fraction(dT))
    exf = np.array([float(v) for v in ex], dtype=np.longdouble)
    # subtract in exact arithmetic where it matters: convert y1 to Fractions is overkill; longdouble suffices
    err = np.abs(y1 - exf) / (1 + np.abs(exf))
    inc = max(abs(float(e - y)) for e, y in zip(ex, prob.y0))
    return float(np.max(err)), inc


def _probe_grade(factory, grade, pseed, dtype, nper, separable, linear, rec, label, tol=None):
    prob = GradedPoly(grade, pseed, nper=nper, separable=separable, linear=linear)
    worst = 0.0
    accepted = 0
    for h0 in STEPS:
        # exactness holds for EVERY step size: when the Newton iteration of an implicit method does not converge at h,
        # the probe is repeated at h/2, h/4 (an accepted step of at least half the requested length is used as is)
        got = None
        for h in (h0, h0 / 2, h0 / 4):
            ok, dT, y1, info = _one_exact_step(factory, prob, dtype, h, separable, tol=tol)
            if not ok:
                rec.bump("probe_not_accepted")
                continue
            if abs(dT) < 0.5 * abs(h):
                rec.bump("probe_step_shortened")
                continue
            got = (dT, y1)
            break
        if got is None:
            continue
        dT, y1 = got
        d, inc = _exact_defect(prob, dT, y1)
        if inc > 1e-3 and prob.has_top_weight():
            accepted += 1
        worst = max(worst, d)
    return worst, accepted


def run_case(spec):
    kind = spec["kind"]
    if kind == "exact":
        return _run_exact(spec)
    if kind == "embedded":
        return _run_embedded(spec)
    if kind == "richardson":
        return _run_richardson(spec)
    if kind == "slope":
        return _run_slope(spec)
    if kind == "richardson_sequence":
        return _run_richardson_sequence(spec)
    if kind == "global":
        return _run_global(spec)
    if kind == "exact_retry":
        return _run_exact_retry(spec)
    raise ValueError(kind)


def _run_exact_retry(spec):
    import desolver as de
    from vf.instrument import StepLog
    M = util.methods()
    info = M[spec["method"]]
    g = spec["grade"]
    dt = np.dtype("float64")
    rec = util.Rec(sig="exact_retry|%s|%d|%d" % (spec["method"], spec["sign"], spec["pseed"]))
    feats = {"method": spec["method"], "family": info["family"], "declared": info["order"], "grade": g, "sign": spec["sign"], "kind": "exact_retry"}
    worst = 0.0
    for trial in range(4):
        prob = GradedPoly(g, spec["pseed"] + 13 * trial, nper=1)
        intg = info["cls"]((prob.dim,), dtype=dt, rtol=1e-11, atol=1e-11)        # the method's OWN controller decides
        slog = StepLog(intg)
        rhs = de.DiffRHS(prob.rhs)
        y0 = np.array([float(v) for v in prob.y0], dtype=dt)
        t0 = np.asarray(float(prob.t0), dtype=dt)
        try:
            _, (dT1, dY1) = intg(rhs, t0, y0, {}, np.asarray(spec["sign"] * 0.02, dtype=dt))
            t1 = t0 + dT1
            y1 = y0 + dY1
            n1 = len(slog.attempts)
            _, (dT2, dY2) = intg(rhs, t1, y1, {}, np.asarray(spec["sign"] * (1.25 + 0.25 * trial), dtype=dt))
        except Exception as e:
            rec.bump("exact_retry_not_accepted_" + type(e).__name__)
            continue
        second = slog.attempts[n1:]
        rec.bump("exact_retry_probes")
        if len(second) >= 2:
            rec.bump("exact_retry_probes_with_a_rejected_attempt")
        y2 = y1.astype(np.longdouble) + np.asarray(dY2, dtype=np.longdouble)
        elapsed = Fraction(float(t1)) - Fraction(float(t0)) + Fraction(float(dT2))
        ex = np.array([float(v) for v in prob.exact(elapsed)], dtype=np.longdouble)
        d = float(np.max(np.abs(y2 - ex) / (1 + np.abs(ex))))
        worst = max(worst, d)
        rec.nontrivial = True
        # published coefficients of the order-14 pair are only ~3e-13 accurate: a long accepted step is judged with the general exactness threshold
        thr = 1e-12 if (len(second) >= 2 and abs(float(dT2)) <= 0.5) else 1e-10
        if d > thr:      # (worst on the unchanged tree: 7e-15; a stale slope leaves ~1e-9 at these tolerances, since the controller sees only a fraction of it)
            rec.violate("declared_order_exactness", "step_after_a_continued_call_or_a_rejected_attempt_is_not_exact", dict(feats, rejected_attempts=len(second) - 1),
                        defect=d, attempts=[a_["h"] for a_ in second][:6], dT=float(dT2))
            break
    rec.worst("exact_retry_defect", worst)
    rec.sample = {"spec": spec, "defect": worst}
    return rec.out()


def _first_bad(cls, g, spec, sep, linear, rec, tau):
    for gg in range(1, g + 1):
        w, a = _probe_grade(cls, gg, spec["pseed"] + 17, spec["dtype"], 1, sep, linear, rec, "localise")
        if a and w > tau:
            return gg
    return None


def _run_exact(spec):
    M = util.methods()
    info = M[spec["method"]]
    cls = info["cls"]
    g = spec["grade"]
    rec = util.Rec(sig="exact|%s|%d|%s|%d" % (spec["method"], g, spec["dtype"], spec["pseed"]))
    tau = TAU[spec["dtype"]]
    sep = info["splitting"]
    worst, acc = _probe_grade(cls, g, spec["pseed"], spec["dtype"], spec.get("nper", 1), sep, False, rec, "general")
    rec.bump("exact_probes_accepted", acc)
    rec.nontrivial = acc > 0
    rec.worst("exact_defect_%s" % spec["dtype"], worst)
    feats = {"method": spec["method"], "family": info["family"], "dtype": spec["dtype"], "declared": info["order"], "grade": g}
    rec.sample = {"spec": {k: spec[k] for k in ("kind", "method", "grade", "dtype", "pseed")}, "defect": worst, "accepted_steps": acc}
    if acc and worst > tau:
        # localise the first failing grade (attribution only)
        first_bad = _first_bad(cls, g, spec, sep, False, rec, tau)
        mech = "order_condition_fails_at_grade_%s" % first_bad
        if sep:
            # several seeds: the first failing grade must not depend on the luck of one random system
            fb = [x for x in (_first_bad(cls, g, dict(spec, pseed=spec["pseed"] + 31 * q), True, False, rec, tau) for q in range(3)) if x]
            if first_bad:
                fb.append(first_bad)
            mech = "splitting_general_order_%s" % ((min(fb) - 1) if fb else "unknown")
        rec.violate("declared_order_exactness", mech, feats, defect=worst, tau=tau, first_failing_grade=first_bad)
    if sep and g == info["order"]:
        # the declared order should at least hold on the quadratic-Hamiltonian (linear, autonomous) sub-class
        wl, al = _probe_grade(cls, g, spec["pseed"] + 1, spec["dtype"], 1, True, True, rec, "linear")
        rec.bump("exact_linear_probes_accepted", al)
        rec.worst("exact_defect_linear", wl)
        if al and wl > tau:
            rec.violate("declared_order_exactness_linear", "order_on_quadratic_hamiltonians_below_declared", feats, defect=wl, tau=tau)
    return rec.out()


def _run_embedded(spec):
    import desolver as de
    M = util.methods()
    info = M[spec["method"]]
    dt = dtype_of(spec["dtype"])
    rng = rng_for(102, spec["pseed"])
    rec = util.Rec(sig="embedded|%s|%s" % (spec["method"], spec["dtype"]))
    worst = 0.0
    for h in STEPS:
        c = rng.uniform(0.5, 2.0, 3) * rng.choice([-1, 1], 3)
        cvec = np.asarray(c, dtype=dt)
        intg = info["cls"]((3,), dtype=dt)
        util.passthrough_adaptation(intg)
        rhs = de.DiffRHS(lambda t, y, cvec=cvec: cvec + 0 * y)
        y0 = np.asarray(rng.uniform(-1, 1, 3), dtype=dt)
        try:
            intg(rhs, np.asarray(0.25, dtype=dt), y0, {}, np.asarray(h, dtype=dt))
        except Exception:
            rec.bump("probe_not_accepted")
            continue
        est = np.asarray(intg.get_error_estimate(), dtype=np.longdouble)
        ratio = float(np.max(np.abs(est) / np.abs(c)))
        worst = max(worst, ratio)
        rec.bump("embedded_probes")
        rec.nontrivial = True
    eps = float(np.finfo(dt).eps)
    rec.worst("embedded_sum_defect_over_eps", worst / eps)
    rec.sample = {"spec": spec, "estimate_over_field": worst}
    # sum(b) - sum(bhat) accumulated over <= 35 stages of O(1..30) coefficients
    if worst > 4096 * eps:
        rec.violate("embedded_weights_inconsistent", "error_estimate_nonzero_on_constant_field",
                    {"method": spec["method"], "dtype": spec["dtype"]}, estimate_over_field=worst)
    return rec.out()


def _run_richardson(spec):
    M = util.methods()
    info = M[spec["method"]]
    n = spec["levels"]
    g = spec["grade"]
    rec = util.Rec(sig="richardson|%s|%d|%d" % (spec["method"], n, spec["pseed"]))
    factory = util.richardson(info["cls"], n)
    sep = info["splitting"]
    worst, acc = _probe_grade(factory, g, spec["pseed"], spec["dtype"], 1, sep, False, rec, "rich", tol=spec.get("tol"))
    rec.bump("richardson_probes_accepted", acc)
    if spec.get("tol"):
        rec.bump("richardson_probes_at_loose_tolerance", acc)
    rec.nontrivial = acc > 0
    rec.worst("richardson_defect", worst)
    rec.sample = {"spec": {k: spec[k] for k in ("kind", "method", "levels", "grade")}, "defect": worst}
    tau = TAU[spec["dtype"]]
    if acc and worst > tau:
        feats = {"method": spec["method"], "levels": n, "declared": info["order"], "grade": g, "family": info["family"]}
        # attribution: is the base itself exact at its own grade, and is the wrapper exact at the base grade?
        wb, ab = _probe_grade(info["cls"], info["order"], spec["pseed"], spec["dtype"], 1, sep, False, rec, "base")
        ww, aw = _probe_grade(factory, info["order"], spec["pseed"], spec["dtype"], 1, sep, False, rec, "rich-basegrade")
        if ab and wb > tau:
            mech = "base_method_not_of_declared_order"
        elif aw and ww <= tau and n >= 3:
            mech = "no_order_gain_from_extrapolation"
        else:
            mech = "wrapper_lower_order_than_base"
        rec.violate("richardson_order", mech, feats, defect=worst, tau=tau, base_defect=wb, wrapper_defect_at_base_grade=ww)
    return rec.out()


def _run_richardson_sequence(spec):
    """wrappers of ONE base with 2,3,4,5 levels requested one after the other in the same process (either order): each must
    have the order its own level count implies, whatever was generated before it."""
    M = util.methods()
    info = M[spec["method"]]
    p = info["order"]
    sep = info["splitting"]
    seq = [2, 3, 4, 5] if spec["order"] == "ascending" else [5, 4, 3, 2]
    rec = util.Rec(sig="richseq|%s|%s" % (spec["method"], spec["order"]))
    tau = TAU[spec["dtype"]]
    factories = [(n, util.richardson(info["cls"], n)) for n in seq]     # all generated first, then probed
    # the wrappers must also be constructible with the library's default tolerances (no rtol/atol given)
    try:
        for n, fac in factories[:2]:
            fac((2,), dtype=np.dtype("float64"))
        rec.bump("richardson_default_tolerance_constructions", 2)
    except Exception as e:
        rec.violate("richardson_construction", type(e).__name__, {"method": spec["method"], "family": info["family"]}, err=repr(e)[:200])
    for n, factory in factories:
        g = p if n == 2 else p + 1
        worst, acc = _probe_grade(factory, g, spec["pseed"] + n, spec["dtype"], 1, sep, False, rec, "richseq")
        rec.bump("richardson_probes_accepted", acc)
        rec.bump("richardson_sequence_probes", 1 if acc else 0)
        rec.nontrivial = rec.nontrivial or acc > 0
        if acc and worst > tau:
            feats = {"method": spec["method"], "levels": n, "declared": p, "grade": g, "family": info["family"], "sequence": spec["order"]}
            wb, ab = _probe_grade(info["cls"], p, spec["pseed"], spec["dtype"], 1, sep, False, rec, "base")
            mech = "base_method_not_of_declared_order" if (ab and wb > tau) else "wrapper_order_depends_on_previously_generated_wrappers"
            # does a wrapper generated in isolation pass? (attribution only)
            rec.violate("richardson_order", mech, feats, defect=worst, tau=tau)
    rec.sample = {"spec": spec, "levels_in_order": seq}
    return rec.out()


# ---------------------------------------------------------------------------------------------
def _local_error(info, prob, t0, h, dtype, ref):
    import desolver as de
    dt = dtype_of(dtype)
    kw = dict(rtol=1e-14, atol=1e-14) if dtype == "float64" else dict(rtol=1e-17, atol=1e-17)
    intg = info["cls"](prob_shape(prob), dtype=dt, **kw)
    util.passthrough_adaptation(intg)
    rhs = de.DiffRHS(prob_rhs(prob))
    if hasattr(prob, "jac"):
        rhs.hook_jacobian_call(prob.jac)
    y0 = ref(t0).astype(dt)
    try:
        _, (dT, dY) = intg(rhs, np.asarray(t0, dtype=dt), y0, {}, np.asarray(h, dtype=dt))
    except Exception:
        return None
    if abs(float(dT)) < 0.999 * abs(h):
        return None
    y1 = y0.astype(np.longdouble) + np.asarray(dY, dtype=np.longdouble)
    return float(np.max(np.abs(y1 - ref(np.longdouble(t0) + np.longdouble(float(dT))))))


def prob_shape(prob):
    return prob.shape


def prob_rhs(prob):
    return prob.rhs


class _HamRef:
    """Separable Hamiltonian with a high-accuracy reference (scipy DOP853, rtol 1e-13) for the slope test."""

    def __init__(self, seed):
        kinds = ["pendulum", "duffing", "henon_heiles"]
        self.ham = Hamiltonian(kinds[seed % 3], seed)
        rng = rng_for(103, seed)
        self.shape = (2 * self.ham.nd,)
        self.y0 = rng.uniform(0.2, 0.6, 2 * self.ham.nd)
        self.rhs = self.ham.make_rhs("qp")

    def flow(self, h):
        from scipy.integrate import solve_ivp
        f = lambda t, y: self.rhs(t, np.asarray(y, dtype=np.float64))
        s = solve_ivp(f, (0.0, h), self.y0, method="DOP853", rtol=1e-13, atol=1e-15)
        return s.y[:, -1]


def _run_slope(spec):
    M = util.methods()
    info = M[spec["method"]]
    p = info["order"]
    sgn = spec["sign"]
    rec = util.Rec(sig="slope|%s|%d|%d" % (spec["method"], sgn, spec["pseed"]))
    # ladder chosen so that the top error is ~1e-2..1e-4 and the bottom stays above the float floor
    hmax = {1: 0.04, 2: 0.1, 3: 0.2, 4: 0.3, 5: 0.4, 6: 0.5}[p]
    hs = [sgn * hmax / (2 ** k) for k in range(4)]
    errs = []
    if info["splitting"]:
        hr = _HamRef(spec["pseed"])
        import desolver as de
        for h in hs:
            intg = info["cls"](hr.shape, dtype=np.dtype("float64"))
            rhs = de.DiffRHS(hr.rhs)
            _, (dT, dY) = intg(rhs, np.asarray(0.0), hr.y0.copy(), {}, np.asarray(h))
            errs.append(float(np.max(np.abs(hr.y0 + dY - hr.flow(float(dT))))))
    else:
        dtype = "longdouble" if info["explicit"] else "float64"
        prob = Manufactured(3, spec["pseed"], direction=sgn)
        t0 = 0.3
        for h in hs:
            e = _local_error(info, prob, t0, h, dtype, lambda t: prob.ystar(t, dtype=np.longdouble))
            errs.append(e)
    if any(e is None for e in errs):
        rec.bump("slope_not_accepted")
        rec.skipped = "slope: step not accepted at full length"
        return rec.out()
    floor = 5e-13 if (info["splitting"] or not info["explicit"]) else 1e-17
    pts = [(abs(h), e) for h, e in zip(hs, errs) if e > floor * 50]
    if len(pts) < 3:
        rec.skipped = "slope: errors at rounding floor"
        rec.bump("slope_at_floor")
        return rec.out()
    # local slopes of consecutive pairs: the asymptotic regime is approached from above or below, and the finest
    # points of implicit methods feel the Newton tolerance; a method of lower order q < p has ALL pair slopes ~ q+1
    pair = [float(np.log(pts[i][1] / pts[i + 1][1]) / np.log(pts[i][0] / pts[i + 1][0])) for i in range(len(pts) - 1)]
    slope = max(pair)
    if slope < p + 1 - 0.6 and len(pts) < len(hs):
        # a ladder that is still pre-asymptotic at its coarse end and whose finest point sits between 4x and 50x the noise floor (Gauss-Legendre 6
        # at h = 0.5 .. 0.0625: pair slopes 4.75, 6.18, 6.68): the finest pair is admitted (it can only raise the maximum; noise <= 25% of that
        # point moves its slope by <= 0.4, a method of order < p stays below p + 0.4)
        pts4 = [(abs(h), e) for h, e in zip(hs, errs) if e > floor * 4]
        pair4 = [float(np.log(pts4[i][1] / pts4[i + 1][1]) / np.log(pts4[i][0] / pts4[i + 1][0])) for i in range(len(pts4) - 1)]
        if pair4 and max(pair4) > slope:
            slope = max(pair4)
            rec.bump("slope_decided_by_a_point_near_the_floor")
    rec.bump("slope_probes")
    rec.nontrivial = True
    rec.worst("slope_deficit", (p + 1) - slope)
    rec.sample = {"spec": spec, "errors": errs, "slope": slope, "declared": p}
    if slope < p + 1 - 0.6:
        mech = "local_error_slope_below_declared"
        if info["splitting"] and slope >= 5 - 0.6:
            mech = "splitting_local_order_4"
        rec.violate("declared_order_slope", mech, {"method": spec["method"], "family": info["family"], "declared": p, "sign": sgn},
                    slope=slope, errors=errs, hs=hs)
    return rec.out()


def _run_global(spec):
    """global error of a fixed-step run with N, 2N and 4N steps: the best observed ratio log2(e_N/e_2N) must reach p - 0.6."""
    import desolver as de
    M = util.methods()
    info = M[spec["method"]]
    p = info["order"]
    t0, tf = spec["span"]
    d = 1 if tf > t0 else -1
    prob = Manufactured(2, spec["pseed"], direction=d)
    rec = util.Rec(sig="global|%s|%s|%d" % (spec["method"], spec["span"], spec["pseed"] % 7))
    feats = {"method": spec["method"], "family": info["family"], "declared": p, "span_class": "%s%s%s" % ("-" if t0 < 0 else "+", "-" if tf < 0 else "+", "toward0" if abs(tf) < abs(t0) else "away")}
    n0 = {1: 64, 2: 24, 3: 16, 4: 10, 5: 8}.get(p, 8)
    errs, rows = [], []
    g = spec.get("retune")
    tc = t0 + 0.5 * (tf - t0)
    if g:
        feats["retuned_between_calls"] = True
        rec.bump("global_order_runs_retuned", 3)

    def rhs_g(t, y, gain=1.0, **kw):
        # z(t) = y*(tc + gain (t - tc)) solves z' = gain f(tc + gain (t - tc), z)
        return gain * prob.rhs(tc + gain * (t - tc), y)
    for n in (n0, 2 * n0, 4 * n0):
        if g:
            a = de.OdeSystem(rhs_g, y0=prob.ystar(t0).astype(np.float64), dense_output=False, t=(t0, tf), dt=abs(tf - t0) / n, constants={"gain": 1.0})
            a.method = info["cls"]
            a.integrate(tc)
            a.constants["gain"] = g
            a.integrate()
        else:
            a = de.OdeSystem(prob.rhs, y0=prob.ystar(t0).astype(np.float64), dense_output=False, t=(t0, tf), dt=abs(tf - t0) / n)
            a.method = info["cls"]
            a.integrate()
        t = np.asarray(a.t)
        rows.append(len(t))
        t_exact = float(t[-1]) if not g else tc + g * (float(t[-1]) - tc)
        errs.append(float(np.max(np.abs(np.asarray(a.y[-1], dtype=np.longdouble) - prob.ystar(t_exact)))) if abs(float(t[-1]) - tf) < 1e-9 else float("nan"))
    rec.bump("global_order_runs", 3)
    rec.nontrivial = True
    rec.sample = {"spec": spec, "errors": errs, "rows": rows}
    if not all(np.isfinite(errs)):
        rec.violate("global_order", "run_did_not_end_at_target", feats, errors=errs, rows=rows)
        return rec.out()
    usable = [(errs[i], errs[i + 1]) for i in range(2) if errs[i + 1] > 1e-13]
    if not usable:
        rec.bump("global_at_floor")
        return rec.out()
    rate = max(float(np.log2(a_ / b_)) for a_, b_ in usable)
    rec.bump("global_order_probes")
    rec.worst("global_order_deficit", p - rate)
    if rate < p - 0.6:
        rec.violate("global_order", "halving_the_step_does_not_divide_the_global_error_by_2_to_the_p", feats, rate=rate, errors=errs, rows=rows)
    return rec.out()


def post_check(tier, results, counters):
    M = util.methods()
    seen = {}
    for r in results:
        s = r.get("spec", {})
        if s.get("kind") == "exact" and s.get("grade") == M.get(s.get("method"), {}).get("order") and r.get("counters", {}).get("exact_probes_accepted", 0) >= 2:
            seen[s["method"]] = True
    missing = [m for m in M if m not in seen]
    if missing:
        return ["methods never observed at their declared grade with >=2 accepted signed steps: %s" % missing]
    return []
