"""C18 - the solve_ivp facade honours its arguments and agrees with the object API (and with scipy)."""
import numpy as np

from vf import util
from vf.problems import Manufactured, rng_for

LEVEL = "exploration"
RULE = ("one case = (method by name or class, state shape, span direction, t_eval kind (none / subset without end points / with end points / unsorted / repeated), "
        "args tuple, max_step, first_step, tolerances, dense, events); oracle: shapes (n_t,) and (*shape,n_t), columns pair with times (clock component), first "
        "column = y0 without t_eval, with t_eval the returned times are sort(t_eval) (direction-aware) and the states accurate to tolerance, args bound in order "
        "(any permutation changes the solution), no recorded step longer than max_step, sol/nfev/njev/status/success/events are those of res.ode_system, "
        "trajectory bit-equal to the object API driven with the same settings, agreement with scipy.integrate.solve_ivp; non-trivial = call returned; distinct "
        "by (method, shape, direction, t_eval kind, options, seed)")
ASSUMPTIONS = ["'exactly those times' is read up to the landing rounding of C03 (64 eps)", "accuracy unit: 200*(atol+rtol*|y|) for embedded pairs, comparison with scipy at 1e3 units"]
RULE += " Strata added in the fourth seeding round: max_step such that the span is a whole number of steps plus a sliver; event roots bit-exactly on requested output times reported once each."
FLOORS = {"quick": {"calls_checked": 150, "t_eval_calls": 70, "backward_calls": 40, "max_step_calls": 40, "args_calls": 40, "object_api_comparisons": 100, "scipy_comparisons": 60, "matrix_state_calls": 20, "sliver_max_step_calls": 18, "event_roots_on_output_times": 30},
          "thorough": {"calls_checked": 1500, "t_eval_calls": 700, "backward_calls": 500, "max_step_calls": 400, "args_calls": 400, "object_api_comparisons": 1000, "scipy_comparisons": 600, "matrix_state_calls": 200, "sliver_max_step_calls": 120, "event_roots_on_output_times": 200}}
METHODS = ["RK45", "RK45CK", "Dormand-Prince", "RK87", "RK108", "RadauIIA5", "LobattoIIIC4", "RK4", "RK5", "Midpoint", "ABAS5O6H", "GaussLegendre4", "BackwardEuler", "AHE"]
CASE_TIMEOUT = 900


def gen_cases(tier, seed):
    rng = rng_for(1801, seed)
    M = util.methods()
    cases = []
    N = 190 if tier == "quick" else 1900
    names = METHODS if tier == "quick" else METHODS + [n for n in M]
    for i in range(N):
        m = names[int(rng.integers(len(names)))]
        d = int(rng.choice([1, 1, -1]))
        te = str(rng.choice(["none", "none", "inner", "with_ends", "unsorted", "repeated"]))
        cases.append(dict(method=m, by_class=bool(rng.random() < 0.3), direction=d, shape=[[3], [3], [2, 2], [4]][int(rng.integers(4))], t_eval=te,
                          use_args=bool(rng.random() < 0.4), max_step=(float(10 ** rng.uniform(-1.5, -0.3)) if rng.random() < 0.35 else None),
                          first_step=(float(10 ** rng.uniform(-3, -1)) if rng.random() < 0.5 else None), rtol=float(10 ** rng.uniform(-8, -4)),
                          dense=bool(rng.random() < 0.4), events=bool(rng.random() < 0.3), pseed=int(rng.integers(1 << 30)), cost=4))
    # designed strata (own random stream, so that the cases above stay what they were):
    #  sliver   - max_step such that the span (or the distance to the next output time) is a whole number of max_step plus a sliver of one:
    #             the closing step of a call must not absorb the sliver (it would be longer than max_step)
    #  on_teval - an event function whose roots are bit-exactly some of the requested output times (located by the call that ends there and by
    #             the call that starts there): every root is to be reported once, as without t_eval / by scipy
    rng2 = rng_for(1803, seed)
    for i in range(24 if tier == "quick" else 160):
        m = ["RK4", "Midpoint", "RK45", "RK45CK", "RK87", "RK5"][int(rng2.integers(6))]
        cases.append(dict(method=m, by_class=bool(rng2.random() < 0.3), direction=int(rng2.choice([1, -1])), shape=[3], t_eval=str(rng2.choice(["none", "none", "inner"])),
                          use_args=False, max_step=None, sliver=[int(rng2.choice([6, 11, 19, 33])), float(rng2.choice([1e-6, 1e-3, 3e-3, 6e-3, 9e-3, 0.02, 0.1]))],
                          first_step=None, rtol=1e-3, dense=bool(rng2.random() < 0.3), events=False, pseed=int(rng2.integers(1 << 30)), cost=4))
    for i in range(24 if tier == "quick" else 160):
        m = names[int(rng2.integers(len(names)))]
        cases.append(dict(method=m, by_class=bool(rng2.random() < 0.3), direction=int(rng2.choice([1, -1])), shape=[3], t_eval=str(rng2.choice(["inner", "with_ends", "unsorted"])),
                          use_args=bool(rng2.random() < 0.3), max_step=None, first_step=(float(10 ** rng2.uniform(-3, -1)) if rng2.random() < 0.5 else None),
                          rtol=float(10 ** rng2.uniform(-8, -4)), dense=bool(rng2.random() < 0.4), events="on_teval", pseed=int(rng2.integers(1 << 30)), cost=4))
    return cases


def _resolve(name):
    import desolver as de
    return de.integrators.available_methods(False)[name] if name in de.integrators.available_methods() else util.methods()[name]["cls"]


def run_case(spec):
    import desolver as de
    import warnings
    rng = rng_for(1802, spec["pseed"])
    d = spec["direction"]
    shape = tuple(spec["shape"])
    n = int(np.prod(shape))
    base = Manufactured(n - 1, spec["pseed"], direction=d)
    t0 = float(rng.uniform(-2, 2))
    L = float(rng.uniform(1.0, 2.5))
    tf = t0 + d * L
    pars = (1.0, -0.5, 0.25)     # f uses them asymmetrically: any permutation changes the solution

    def fun_args(t, y, a, b, c):
        yf = np.asarray(y).reshape(-1)
        out = np.empty_like(yf)
        out[:-1] = base.rhs(t, yf[:-1]) * a + (b + 0.5) * 0.0 + (c - 0.25) * yf[:-1]
        out[-1] = a - (b + 0.5) + (c - 0.25)
        return out.reshape(np.shape(y))

    def fun(t, y):
        return fun_args(t, y, *pars)
    cls = _resolve(spec["method"])
    method = cls if spec["by_class"] else spec["method"]
    info = [i for i in util.methods().values() if i["cls"] is cls][0]
    y0 = np.empty(n)
    y0[:-1] = np.asarray(base.ystar(t0), dtype=np.float64)
    y0[-1] = 0.0
    y0 = y0.reshape(shape)
    y0c = y0.copy()
    rtol, atol = spec["rtol"], spec["rtol"] * 1e-2
    opts = dict(rtol=rtol, atol=atol)
    if spec.get("sliver"):
        spec = dict(spec, max_step=L / (spec["sliver"][0] + spec["sliver"][1]))
        opts["first_step"] = spec["max_step"]
    if spec["max_step"] is not None:
        opts["max_step"] = spec["max_step"]
    if spec["first_step"] is not None:
        opts["first_step"] = spec["first_step"]
    elif not info["adaptive"]:
        opts["first_step"] = L / 64.0
    te = None
    if spec["t_eval"] != "none":
        k = int(rng.integers(3, 9))
        te = t0 + (tf - t0) * np.sort(rng.uniform(0.05, 0.95, k))
        if spec["t_eval"] == "with_ends":
            te = np.concatenate([[t0], te, [tf]])
        if spec["t_eval"] == "repeated":
            te = np.concatenate([te, te[:2]])
        if spec["t_eval"] in ("unsorted", "repeated"):
            te = rng.permutation(te)
    evs = None
    ev_roots = None
    if spec["events"] == "on_teval":
        inner = np.sort(np.unique(te))
        inner = inner[(inner != t0) & (inner != tf)]
        ev_roots = [float(x) for x in rng.choice(inner, size=min(len(inner), int(rng.integers(2, 4))), replace=False)]
        ev_scale = float(10 ** rng.uniform(-2, 2))

        def ev(t, y, *a, **k):
            out = ev_scale
            for r_ in ev_roots:
                out = out * (t - r_)
            return out
        ev.terminal = False
        evs = [ev]
    elif spec["events"]:
        def ev(t, y, *a, **k):
            return np.asarray(y).reshape(-1)[-1] - d * 0.37 * L
        ev.terminal = False
        evs = [ev]
    rec = util.Rec(sig="%s|%s|%s|%d|%s|%s|%s|%s|%d" % (spec["method"], spec["by_class"], shape, d, spec["t_eval"], spec["use_args"], spec["max_step"] is not None, spec["events"], spec["pseed"] % 31))
    feats = {"method": spec["method"], "family": info["family"], "direction": d, "t_eval": spec["t_eval"], "max_step": spec["max_step"] is not None, "args": spec["use_args"], "dense": spec["dense"]}
    kwargs = dict(method=method, t_eval=te, dense_output=spec["dense"], events=evs, **opts)
    try:
        with warnings.catch_warnings():
            warnings.simplefilter("ignore")
            if spec["use_args"]:
                res = de.solve_ivp(fun_args, (t0, tf), y0, args=pars, **kwargs)
            else:
                res = de.solve_ivp(fun, (t0, tf), y0, **kwargs)
    except Exception as e:
        rec.violate("solve_ivp_raised", type(e).__name__, feats, err=repr(e)[:300], cause=repr(getattr(e, "__cause__", None))[:200])
        rec.sample = {"spec": spec, "raised": repr(e)[:200]}
        return rec.out()
    rec.bump("calls_checked")
    rec.nontrivial = True
    if d < 0:
        rec.bump("backward_calls")
    if len(shape) > 1:
        rec.bump("matrix_state_calls")
    osys = res.ode_system
    t = np.asarray(res.t)
    y = np.asarray(res.y)
    eps = 2.3e-16
    rec.sample = {"spec": spec, "n_t": int(t.shape[0]) if t.ndim else None, "y_shape": list(y.shape), "status": str(res.status)[:50]}
    # ---- shapes
    if t.ndim != 1 or y.shape != shape + (t.shape[0],):
        rec.violate("shapes", "result_shapes_not_(n_t,)_and_(*state_shape,n_t)", feats, t_shape=list(t.shape), y_shape=list(y.shape), want=list(shape + (t.shape[0] if t.ndim else -1,)))
        return rec.out()
    if not np.array_equal(y0, y0c):
        rec.violate("caller_data", "y0_modified", feats)
    ycols = y.reshape(n, -1)
    # ---- completion and status fields are those of the underlying system
    if not res.success or not osys.success:
        rec.violate("status", "successful_run_not_reported_as_success", feats, status=str(res.status))
    for fld, want in (("nfev", osys.nfev), ("njev", osys.njev), ("status", osys.integration_status), ("success", osys.success)):
        if getattr(res, fld) != want:
            rec.violate("facade_fields", "result_field_differs_from_underlying_system", dict(feats, field=fld), got=str(getattr(res, fld))[:60], want=str(want)[:60])
    if res.sol is not osys.sol:
        rec.violate("facade_fields", "sol_is_not_the_systems_dense_output", feats)
    if spec["dense"] and res.sol is None:
        rec.violate("facade_fields", "dense_output_requested_but_sol_is_None", feats)
    if len(res.t_events) != len(osys.events):
        rec.violate("facade_fields", "events_differ_from_underlying_system", feats)
    # ---- every root that sits on a requested output time is reported exactly once, in the order met
    if ev_roots is not None:
        rec.bump("event_roots_on_output_times", len(ev_roots))
        got = [float(e.t) for e in osys.events]
        want_ev = sorted(ev_roots, reverse=(d < 0))
        if len(got) != len(want_ev) or max(abs(a_ - b_) for a_, b_ in zip(got, want_ev)) > 1e-7 * max(1.0, L):
            rec.violate("events_on_output_times", "roots_on_requested_output_times_not_reported_exactly_once", feats, got=got[:10], want=want_ev)
    # ---- times
    if te is None:
        if float(t[0]) != t0 or not np.array_equal(ycols[:, 0], y0.reshape(-1)):
            rec.violate("first_column", "first_column_is_not_the_initial_condition", feats, t_first=float(t[0]))
        if abs(float(t[-1]) - tf) > 64 * eps * max(1.0, abs(tf)):
            rec.violate("reach", "last_time_not_at_end_of_span", feats, t_last=float(t[-1]), tf=tf)
        if t.shape[0] > 1 and not np.all(np.sign(np.diff(t)) == d):
            rec.violate("monotone", "times_not_monotone_along_the_span", feats)
    else:
        rec.bump("t_eval_calls")
        want = np.sort(te) if d > 0 else np.sort(te)[::-1]
        if t.shape != want.shape or float(np.max(np.abs(t - want))) > 64 * eps * max(1.0, float(np.max(np.abs(want)))):
            rec.violate("t_eval_times", "returned_times_are_not_the_requested_t_eval_sorted_along_the_span", feats, got=[float(x) for x in t[:8]], want=[float(x) for x in want[:8]])
            return rec.out()
    # ---- pairing (clock component: y_c(t) = (a - (b+.5) + (c-.25)) * (t - t0) = t - t0) and accuracy
    clock = ycols[-1, :]
    dev = float(np.max(np.abs(clock - (t - t0))))
    steps = max(2, len(osys))
    cunit = (64 * eps * steps * max(1.0, abs(t0), abs(tf)) + (0.0 if info["explicit"] else 4 * steps * (atol + rtol * (1 + L))))
    rec.worst("clock_pairing_over_unit", dev / cunit)
    if dev > cunit:
        rec.violate("pairing", "columns_do_not_pair_with_times", feats, dev=dev, unit=cunit)
    if info["adaptive"]:
        worst = 0.0
        for k in range(t.shape[0]):
            ex = np.asarray(base.ystar(float(t[k])), dtype=np.float64)
            # the extra term (c-.25)*y vanishes for the true parameters, so y*(t) is the exact solution
            worst = max(worst, float(np.max(np.abs(ycols[:-1, k] - ex) / (atol + rtol * np.abs(ex)))))
        nmem = max(1, int(len(osys)))
        rec.worst("accuracy_in_tolerance_units_per_step", worst / nmem)
        if worst > 20.0 * nmem and worst > 200.0:
            rec.violate("accuracy", "states_inaccurate_or_arguments_bound_wrongly", feats, ratio=worst, steps=nmem)
    # ---- args really bound in order: the clock component integrates a-(b+.5)+(c-.25) = 1 only for the right order
    if spec["use_args"]:
        rec.bump("args_calls")
        ok_const = osys.constants
        if list(ok_const.values()) != list(pars):
            rec.violate("args_binding", "args_not_bound_to_parameters_in_order", feats, constants={k: float(v) for k, v in ok_const.items()})
    # ---- max_step
    if spec["max_step"] is not None:
        rec.bump("max_step_calls")
        if spec.get("sliver"):
            rec.bump("sliver_max_step_calls")
        st = np.abs(np.diff(np.asarray(osys.t)))
        if len(st) and float(np.max(st)) > spec["max_step"] * (1 + 64 * eps) + 64 * eps * max(abs(t0), abs(tf)):
            rec.violate("max_step", "recorded_step_longer_than_max_step", feats, longest=float(np.max(st)), max_step=spec["max_step"])
    # ---- equality with the object API driven with the same settings
    try:
        with warnings.catch_warnings():
            warnings.simplefilter("ignore")
            first = opts.get("first_step", 1.0)
            if spec["max_step"] is not None:
                first = min(first, spec["max_step"])
            consts = {"a": pars[0], "b": pars[1], "c": pars[2]} if spec["use_args"] else None
            S = de.OdeSystem(fun_args if spec["use_args"] else fun, y0=y0c.copy(), t=(t0, tf), dense_output=spec["dense"], dt=first, rtol=rtol, atol=atol, constants=consts)
            S.method = method
            cbs = []
            if spec["max_step"] is not None:
                ms = spec["max_step"]

                def cb(s):
                    s.dt = np.sign(s.dt) * np.clip(np.abs(s.dt), 0.0, ms)
                cbs.append(cb)
            if te is None:
                S.integrate(callback=cbs, events=evs)
            else:
                for tt in (np.sort(te) if d > 0 else np.sort(te)[::-1]):
                    S.integrate(t=tt, callback=cbs, events=evs)
        rec.bump("object_api_comparisons")
        if len(S) != len(osys) or not (np.array_equal(np.asarray(S.t), np.asarray(osys.t)) and np.array_equal(np.asarray(S.y), np.asarray(osys.y))):
            rec.violate("object_api_equality", "facade_trajectory_differs_from_object_api_with_same_settings", feats, rows=[len(S), len(osys)])
    except Exception as e:
        rec.violate("object_api_equality", "object_api_run_raised", feats, err=repr(e)[:200])
    # ---- agreement with scipy
    if info["adaptive"] and te is None or (te is not None and info["adaptive"]):
        from scipy.integrate import solve_ivp as sp_ivp
        r = sp_ivp(lambda t_, y_: fun(t_, y_.reshape(shape)).reshape(-1), (t0, tf), y0c.reshape(-1), method="DOP853", rtol=1e-11, atol=1e-13, dense_output=True)
        ref = r.sol(t)      # scipy's continuous extension at the returned times (handles unsorted / repeated t_eval)
        rec.bump("scipy_comparisons")
        diff = float(np.max(np.abs(ref - ycols)))
        unit = 50 * (atol + rtol * (1 + float(np.max(np.abs(ycols))))) * max(1, len(osys)) ** 0.5
        rec.worst("scipy_difference_over_unit", diff / unit)
        if diff > unit:
            rec.violate("scipy_agreement", "result_differs_from_scipy_solve_ivp_beyond_tolerance", feats, diff=diff, unit=unit)
    return rec.out()
