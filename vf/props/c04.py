"""C04 - fixed-step methods take the requested step wherever the time axis sits; shift / reflection relations."""
import numpy as np

from vf import util, sysrun
from vf.instrument import StepLog
from vf.problems import dtype_of, rng_for

LEVEL = "exploration"
NO_PROGRESS_IS_VIOLATION = True   # the statement promises returned states in both directions of time: a loop that cannot end refutes it
RULE = ("kinds: steps (non-adaptive method, no intervention: every recorded step but the last has magnitude dt to rounding, none longer; "
        "implicit methods may shorten only with a logged Newton failure), shift ((t0,tf) vs (t0+c,tf+c) on an autonomous system), "
        "reflect (y'=f(y) on (t0,tf) vs w'=-f(w) on (-t0,-tf)); non-trivial = >=3 full-length steps; distinct by (kind,method,span,dt,shift)")
ASSUMPTIONS = ["the set of fixed-step methods is computed at run time from is_adaptive", "dt >= 64 ulp of the largest time"]
RULE += " Strata added in the fourth seeding round: Spans that are a whole number of steps plus a sliver, time shifts by 1e7..2e9, and the requested step changed through the dt setter between calls."
FLOORS = {"quick": {"runs_checked": 120, "full_length_steps": 1200, "shift_pairs": 30, "reflect_pairs": 30, "backward_runs": 40, "multi_leg_runs": 12, "richardson_pairs": 6, "facade_runs": 10, "facade_runs_backward": 3, "sliver_remainder_runs": 15, "shift_pairs_far_from_the_origin": 12, "dt_changed_between_calls": 20},
          "thorough": {"runs_checked": 1200, "full_length_steps": 12000, "shift_pairs": 120, "reflect_pairs": 120, "backward_runs": 400, "multi_leg_runs": 120, "richardson_pairs": 24, "facade_runs": 100, "facade_runs_backward": 30, "sliver_remainder_runs": 60, "shift_pairs_far_from_the_origin": 60, "dt_changed_between_calls": 100}}
SPANS = [(0.0, 2.0), (-5.0, 1.0), (-10.0, -5.0), (10.0, 5.0), (1.0, -5.0), (3.0, -3.0), (0.0, -2.0), (-2.0, 0.0), (-0.5, 0.25), (7.0, 7.5), (100.0, 103.0)]
SHIFTS = [1.0, -1.0, 7.3, -7.3, 1e3, -1e3]
K = 64
CASE_TIMEOUT = 400


class Autonomous:
    def __init__(self, dim, seed, direction):
        rng = rng_for(401, dim, seed)
        Dg = np.diag(rng.uniform(0.2, 1.5, dim))
        S = rng.uniform(-1, 1, (dim, dim))
        self.A = -float(direction) * Dg + 0.5 * (S - S.T)
        self.B = rng.uniform(-1, 1, (dim, dim))
        self.b = rng.uniform(-1, 1, dim)
        self.y0 = rng.uniform(-1, 1, dim)
        self.sign = 1.0

    def rhs(self, t, y, **kw):
        A = self.A.astype(y.dtype)
        B = self.B.astype(y.dtype)
        b = self.b.astype(y.dtype)
        out = A @ y + y.dtype.type(0.4) * np.tanh(B @ y) + b
        return out if self.sign > 0 else -out


def _legs(rng, nsteps):
    """0-2 intermediate targets; every leg is at least 1.6 steps long (the property presupposes dt <= span for each call)."""
    k = int(rng.integers(0, 3))
    if k == 0 or nsteps < 6:
        return []
    for _ in range(20):
        cuts = sorted(float(x) for x in rng.uniform(0.1, 0.9, k))
        edges = [0.0] + cuts + [1.0]
        if min(b - a for a, b in zip(edges[:-1], edges[1:])) * nsteps >= 1.6:
            return cuts
    return []


def gen_cases(tier, seed):
    M = util.methods()
    rng = rng_for(402, seed)
    fixed = [n for n, i in M.items() if not i["adaptive"]]
    cases = []
    for name in fixed:
        info = M[name]
        spans = list(SPANS)
        for span in spans:
            if tier == "quick" and rng.random() < 0.5:
                continue
            L = abs(span[1] - span[0])
            for rep in range(1 if tier == "quick" else 3):
                nsteps = float(rng.choice([3.0, 7.5, 16.0, 33.3, 64.0, 120.7]))
                cases.append(dict(kind="steps", method=name, dtype=str(rng.choice(["float64", "float64", "float32", "longdouble"])) if info["explicit"] else "float64",
                                  span=list(span), dt=float(rng.choice([-1, 1])) * L / nsteps, nsteps=nsteps, pseed=int(rng.integers(1 << 30)),
                                  legs=_legs(rng, nsteps) if info["explicit"] else [],
                                  cost=(1 if info["explicit"] else 8) * nsteps / 10.0))
                if info["explicit"] and rng.random() < (0.35 if tier == "quick" else 0.5):
                    # the same request through the functional facade: first_step is the step magnitude (scipy's convention), the span gives the direction
                    cases.append(dict(cases[-1], route="solve_ivp", legs=[], dt=abs(cases[-1]["dt"]), by_name=bool(rng.random() < 0.5), pseed=int(rng.integers(1 << 30))))
    # sliver remainders: the span is a whole number of steps plus (or minus) a tiny fraction of one, so that the distance left before the
    # closing step is within a hair of dt - "none is longer" must hold for that step as well (a closing step that absorbs the remainder is longer)
    rng2 = rng_for(403, seed)
    for name in fixed:
        info = M[name]
        if not info["explicit"]:
            continue
        for rep in range(2 if tier == "quick" else 8):
            span = SPANS[int(rng2.integers(len(SPANS)))]
            L = abs(span[1] - span[0])
            nsteps = float(rng2.choice([4, 9, 17, 40])) + float(rng2.choice([1e-9, 1e-6, 1e-3, 4e-3, 9e-3, 0.03, 0.2, -1e-3, -1e-6]))
            cases.append(dict(kind="steps", method=name, dtype=str(rng2.choice(["float64", "float64", "longdouble"])), span=list(span),
                              dt=float(rng2.choice([-1, 1])) * L / nsteps, nsteps=nsteps, pseed=int(rng2.integers(1 << 30)), legs=[], sliver=True, cost=nsteps / 10.0))
            if rng2.random() < 0.4:
                cases.append(dict(cases[-1], route="solve_ivp", dtype="float64", dt=abs(cases[-1]["dt"]), by_name=bool(rng2.random() < 0.5), pseed=int(rng2.integers(1 << 30))))
    # the requested step is changed through the dt setter between two calls of one system (lowered or raised): every call steps with the step
    # requested for it, from its first step to its last full one
    for name in fixed:
        if not M[name]["explicit"]:
            continue
        for rep in range(2 if tier == "quick" else 6):
            span = SPANS[int(rng2.integers(len(SPANS)))]
            L = abs(span[1] - span[0])
            nsteps = float(rng2.choice([16.0, 33.3, 64.0]))
            cuts = sorted(float(x) for x in rng2.uniform(0.2, 0.8, 2))
            if cuts[1] - cuts[0] < 0.15:
                cuts = [0.3, 0.65]
            cases.append(dict(kind="steps", method=name, dtype="float64", span=list(span), dt=float(rng2.choice([-1, 1])) * L / nsteps, nsteps=nsteps, pseed=int(rng2.integers(1 << 30)),
                              legs=cuts, leg_dt_factors=[float(rng2.choice([0.25, 0.5, 0.37, 2.0])), float(rng2.choice([0.25, 0.5, 1.5, 3.0]))], cost=nsteps / 5.0))
    # shifts by 1e7 .. 2e9 (a clock in epoch seconds): one ulp of the time axis is 2e-9 .. 2e-7 there, still far below the steps
    for name in M:
        info = M[name]
        if not info["explicit"] and tier == "quick" and rng2.random() < 0.6:
            continue
        for rep in range(1 if tier == "quick" else 3):
            span = [(0.0, 2.0), (1.0, -5.0), (3.0, -3.0), (-0.5, 0.25), (7.0, 7.5)][int(rng2.integers(5))]
            L = abs(span[1] - span[0])
            nsteps = float(rng2.choice([5.0, 12.5, 40.0]))
            cases.append(dict(kind="shift", method=name, dtype="float64", span=list(span), dt=L / nsteps, nsteps=nsteps, shift=float(rng2.choice([1e7, -1e7, 1.7e9, -1.7e9, 3.1e8])),
                              far=True, pseed=int(rng2.integers(1 << 30)), cost=(2 if info["explicit"] else 16)))
    for name in M:
        info = M[name]
        for rep in range(1 if tier == "quick" else 6):
            span = SPANS[int(rng.integers(len(SPANS)))]
            L = abs(span[1] - span[0])
            nsteps = float(rng.choice([5.0, 12.5, 40.0]))
            c = float(rng.choice(SHIFTS))
            cases.append(dict(kind="shift", method=name, dtype="float64", span=list(span), dt=L / nsteps, nsteps=nsteps, shift=c,
                              pseed=int(rng.integers(1 << 30)), cost=(2 if info["explicit"] else 16)))
            span = SPANS[int(rng.integers(len(SPANS)))]
            L = abs(span[1] - span[0])
            cases.append(dict(kind="reflect", method=name, dtype="float64", span=list(span), dt=L / nsteps, nsteps=nsteps,
                              pseed=int(rng.integers(1 << 30)), cost=(2 if info["explicit"] else 16)))
    # Richardson wrappers (adaptive) in the shift / reflection relations; bases flagged symplectic take their own step-size branch
    for base in ["RK4Solver", "ImplicitMidpoint", "SymplecticEulerSolver", "MidpointSolver"]:
        for rep in range(1 if tier == "quick" else 4):
            for kind in ("reflect", "shift"):
                span = SPANS[int(rng.integers(len(SPANS)))]
                if not M[base]["explicit"]:
                    # (cost: the wrapper's symplectic branch only halves/doubles, and the implicit base's solver noise keeps it at small steps)
                    span = [(-0.5, 0.25), (7.0, 7.5), (0.25, -0.5), (-7.0, -7.5)][int(rng.integers(4))]
                L = abs(span[1] - span[0])
                nsteps = float(rng.choice([12.5, 40.0]))
                cases.append(dict(kind=kind, method=base, rich=3, dtype="float64", span=list(span), dt=L / nsteps, nsteps=nsteps, shift=float(rng.choice(SHIFTS)),
                                  pseed=int(rng.integers(1 << 30)), cost=30 if M[base]["explicit"] else 200))
    return cases


def _run(info, prob, y0, t0, tf, dt, dtype, tol, log=False):
    system = sysrun.make_system(prob.rhs, y0.astype(dtype), t0, tf, dt, info["cls"], **tol)
    slog = StepLog(system.integrator) if log else None
    seg = sysrun.call_integrate(system, max_steps=100000)
    return system, seg, slog


def run_case(spec):
    M = util.methods()
    info = M[spec["method"]]
    if spec.get("rich"):
        info = dict(info, cls=util.richardson(info["cls"], spec["rich"]), adaptive=True, family="richardson")
    dtype = dtype_of(spec["dtype"])
    eps = float(np.finfo(dtype).eps)
    t0, tf = spec["span"]
    d = 1 if tf > t0 else -1
    prob = Autonomous(3, spec["pseed"], d)
    rec = util.Rec(sig="%s|%s|%s|%s|%s|%s" % (spec["kind"], spec["method"], spec["dtype"], spec["span"], spec["nsteps"], spec.get("shift")))
    feats = {"kind": spec["kind"], "method": spec["method"], "family": info["family"], "dtype": spec["dtype"], "direction": d}
    tol = dict(rtol=1e-8, atol=1e-10) if info["adaptive"] or not info["explicit"] else {}
    if spec.get("rich"):
        tol = dict(rtol=1e-6, atol=1e-8)
        feats["richardson"] = spec["rich"]
    if spec["dtype"] == "float32":
        tol = {}
    if spec["kind"] == "steps":
        return _steps(spec, info, prob, dtype, eps, t0, tf, d, tol, rec, feats)
    if spec["kind"] == "shift":
        return _shift(spec, info, prob, dtype, eps, t0, tf, d, tol, rec, feats)
    return _reflect(spec, info, prob, dtype, eps, t0, tf, d, tol, rec, feats)


def _steps(spec, info, prob, dtype, eps, t0, tf, d, tol, rec, feats):
    dt = abs(spec["dt"])
    if dt < 64 * eps * max(abs(t0), abs(tf), 1.0):
        rec.skipped = "dt below 64 ulp"
        return rec.out()
    legs = spec.get("legs") or []
    if spec.get("route") == "solve_ivp":
        import desolver as de
        feats = dict(feats, route="solve_ivp")
        slog = None
        try:
            res = de.solve_ivp(prob.rhs, (t0, tf), prob.y0.astype(dtype), method=(spec["method"] if spec.get("by_name") else info["cls"]), first_step=dtype.type(dt), **tol)
        except Exception as e:
            if type(e).__name__ in ("CaseTimeout", "NoProgress") or type(getattr(e, "__cause__", None)).__name__ in ("CaseTimeout", "NoProgress"):
                raise
            rec.violate("explicit_fixed_step_run_raised", type(getattr(e, "__cause__", None) or e).__name__, feats, err=repr(e)[:200])
            return rec.out()
        system = res.ode_system
        seg = {"raised": None}
        leg_ends = [None]
        rec.bump("facade_runs")
    elif not legs:
        system, seg, slog = _run(info, prob, prob.y0, t0, tf, spec["dt"], dtype, tol, log=True)
        leg_ends = [None]
    else:
        # the span is covered by successive integrate(t) calls whose lengths are not multiples of dt: every leg must step with dt again
        system = sysrun.make_system(prob.rhs, prob.y0.astype(dtype), t0, tf, spec["dt"], info["cls"], **tol)
        slog = StepLog(system.integrator)
        leg_ends = []
        seg = None
        facs = list(spec.get("leg_dt_factors") or [])
        leg_dts = [abs(spec["dt"])]
        for li, fr in enumerate(legs + [None]):
            if li > 0 and facs:
                fac_ = facs[(li - 1) % len(facs)]
                leg_len = abs((tf if fr is None else t0 + fr * (tf - t0)) - float(system.t[-1]))
                if abs(spec["dt"]) * fac_ * 1.6 > leg_len:
                    fac_ = 0.5          # (the property presupposes dt <= span for every call)
                newdt = dtype.type(abs(spec["dt"]) * fac_)
                system.dt = newdt if d > 0 else -newdt
                leg_dts.append(float(newdt))
                rec.bump("dt_changed_between_calls")
            elif li > 0:
                leg_dts.append(leg_dts[-1])
            seg = sysrun.call_integrate(system, t=None if fr is None else t0 + fr * (tf - t0), max_steps=100000)
            leg_ends.append(len(system) - 1)
            if seg["raised"]:
                break
        rec.bump("multi_leg_runs")
    if seg["raised"]:
        cause = getattr(seg["exc"], "__cause__", None)
        if isinstance(cause, sysrun.StepBudgetExceeded):
            rec.violate("progress", "step_budget_exceeded", feats, last_t=float(system.t[-1]))
        else:
            rec.bump("raised_" + type(cause or seg["exc"]).__name__)
            if info["explicit"]:
                rec.violate("explicit_fixed_step_run_raised", type(cause or seg["exc"]).__name__, feats, err=repr(cause)[:200])
        rec.sample = {"spec": spec, "raised": repr(cause)[:200]}
        return rec.out()
    rec.bump("runs_checked")
    if spec.get("sliver"):
        rec.bump("sliver_remainder_runs")
    if d < 0:
        rec.bump("backward_runs")
        if spec.get("route") == "solve_ivp":
            rec.bump("facade_runs_backward")
    t = np.asarray(system.t, dtype=np.longdouble)
    steps = np.abs(np.diff(t))
    tmax = max(1.0, float(np.max(np.abs(t))))
    unit = K * eps * tmax
    dtl = np.longdouble(np.asarray(dt, dtype=dtype))   # the step as representable in the run's precision
    closing = set([len(steps) - 1] + [e - 1 for e in leg_ends if e is not None])     # index of the closing step of every call
    inner = np.array([i for i in range(len(steps)) if i not in closing], dtype=int)
    if spec.get("leg_dt_factors") and legs:
        # the step requested for the call each recorded step belongs to
        dtl = np.empty(len(steps), dtype=np.longdouble)
        lo_ = 0
        for li, e_ in enumerate(leg_ends):
            dtl[lo_:e_] = np.longdouble(np.asarray(leg_dts[li], dtype=dtype))
            lo_ = e_
        feats = dict(feats, dt_changed_between_calls=True)
    else:
        dtl = np.full(len(steps), dtl, dtype=np.longdouble)
    nfull = int(np.sum(np.abs(steps[inner] - dtl[inner]) <= unit)) if len(inner) else 0
    rec.bump("full_length_steps", nfull)
    rec.nontrivial = nfull >= 3
    rec.sample = {"spec": spec, "rows": len(t), "first_steps": [float(x) for x in steps[:4]], "last_step": float(steps[-1]) if len(steps) else None}
    if len(steps) == 0:
        rec.violate("no_steps", "no_rows_recorded", feats)
        return rec.out()
    newton_failed = bool(slog and any(a.get("newton_ok") is False for a in slog.attempts))
    longer = np.nonzero(steps > dtl * (1 + K * eps) + unit)[0]
    if len(longer):
        j = int(longer[0])
        mech = "step_longer_than_dt"
        if info["family"] == "implicit_fixed":
            growth = steps[1:] / steps[:-1]
            g = float(np.max(growth[: max(1, len(growth) - 1)])) if len(growth) else float(steps[0] / dtl[0])
            g = max(g, float(steps[0] / dtl[0]))
            mech = "controller_grows_step_of_nonadaptive_implicit_method" if g <= 3.0 else "step_longer_than_dt_unexplained"
        rec.violate("fixed_step_longer", mech, feats, at=j, step=float(steps[j]), dt=float(dtl[j]), rows=len(t))
    shorter = np.array([i for i in inner if steps[i] < dtl[i] * (1 - K * eps) - unit], dtype=int)
    if len(shorter):
        j = int(shorter[0])
        feats = dict(feats, multi_leg=bool(legs))
        if info["explicit"] or not newton_failed:
            # after a legitimate shortening the following steps restart from the shortened size: only flag when
            # no Newton failure at all was logged in this run
            rec.violate("fixed_step_shorter", "step_shorter_than_dt_without_convergence_failure", feats, at=j, step=float(steps[j]), dt=float(dtl[j]), rows=len(t))
        else:
            rec.bump("implicit_shortening_with_logged_newton_failure")
    return rec.out()


def _amp(prob, L):
    return 1.0 + L * (np.linalg.norm(prob.A, 2) + 0.4 * np.linalg.norm(prob.B, 2))


def _compare(rec, feats, info, sa, sb, eps, tol, clause, tscale, expect_rows_equal=True):
    ya = np.asarray(sa.y, dtype=np.longdouble)
    yb = np.asarray(sb.y, dtype=np.longdouble)
    fmax = 1.0 + float(np.max(np.abs(np.diff(ya, axis=0)))) / max(1e-300, float(np.min(np.abs(np.diff(np.asarray(sa.t, dtype=np.longdouble)))))) if len(ya) > 1 else 1.0
    n = min(len(ya), len(yb))
    L = abs(float(sa.t[-1] - sa.t[0]))
    if info["adaptive"] or not info["explicit"]:
        # tolerance level: compare end states only (grids may differ)
        unit = 200 * (tol.get("atol", 1e-10) + tol.get("rtol", 1e-8) * (1 + float(np.max(np.abs(ya))))) * (1 + L) if tol else 1e-4
        err = float(np.max(np.abs(ya[-1] - yb[-1])))
        mech = "end_states_differ_beyond_tolerance"
        if not info["adaptive"]:
            # a non-adaptive (implicit) method should have used the same step sequence in both runs
            da = np.abs(np.diff(np.asarray(sa.t, dtype=np.longdouble)))
            db = np.abs(np.diff(np.asarray(sb.t, dtype=np.longdouble)))
            same = len(da) == len(db) and bool(np.all(np.abs(da - db) <= 64 * K * eps * tscale))
            if not same:
                mech = "nonadaptive_implicit_step_sequences_differ"
        rec.worst(clause + "_%s_over_unit" % info["family"], err / unit)
        if err > unit:
            rec.violate(clause, mech, feats, err=err, unit=unit, rows=[len(ya), len(yb)])
        return
    # fixed-step explicit / splitting: rounding level, row by row (the last row absorbs the rounding of the time axis)
    if abs(len(ya) - len(yb)) > 1:
        rec.violate(clause, "row_counts_differ", feats, rows=[len(ya), len(yb)])
        return
    m = n - 1
    biteq = bool(np.array_equal(ya[:m], yb[:m]))
    rec.bump(clause + "_prefix_bit_equal", int(biteq))
    unit_rows = K * eps * (np.arange(m) + 1) * (1 + float(np.max(np.abs(ya)))) * 4
    if m > 0:
        err = np.max(np.abs(ya[:m] - yb[:m]).reshape(m, -1), axis=1)
        r = err / unit_rows
        rec.worst(clause + "_rows_over_unit", float(np.max(r)))
        if float(np.max(r)) > 1:
            j = int(np.argmax(r))
            rec.violate(clause, "states_differ_beyond_rounding", feats, at=j, err=float(err[j]), unit=float(unit_rows[j]))
            return
    unit_end = unit_rows[-1] if m > 0 else K * eps
    unit_end = unit_end + 4 * K * eps * tscale * fmax
    err = float(np.max(np.abs(ya[-1] - yb[-1])))
    rec.worst(clause + "_end_over_unit", err / unit_end)
    if err > unit_end:
        rec.violate(clause, "end_states_differ_beyond_rounding", feats, err=err, unit=float(unit_end), rows=[len(ya), len(yb)])


def _shift(spec, info, prob, dtype, eps, t0, tf, d, tol, rec, feats):
    c = spec["shift"]
    dt = spec["dt"]
    if dt < 64 * eps * max(abs(t0), abs(tf), abs(t0 + c), abs(tf + c)):
        rec.skipped = "dt below 64 ulp"
        return rec.out()
    sa, sega, _ = _run(info, prob, prob.y0, t0, tf, dt, dtype, tol)
    sb, segb, _ = _run(info, prob, prob.y0, t0 + c, tf + c, dt, dtype, tol)
    feats = dict(feats, shift_class="big" if abs(c) > 100 else "small")
    if sega["raised"] or segb["raised"]:
        rec.bump("raised")
        if bool(sega["raised"]) != bool(segb["raised"]):
            rec.violate("shift_relation", "one_run_raised_the_other_did_not", feats, a=str(sega["raised"]), b=str(segb["raised"]),
                        cause_a=repr(getattr(sega["exc"], "__cause__", None))[:200], cause_b=repr(getattr(segb["exc"], "__cause__", None))[:200])
        return rec.out()
    rec.bump("shift_pairs")
    if spec.get("far"):
        rec.bump("shift_pairs_far_from_the_origin")
    if spec.get("rich"):
        rec.bump("richardson_pairs")
    rec.bump("runs_checked", 2)
    if d < 0:
        rec.bump("backward_runs", 2)
    rec.nontrivial = len(sa) >= 4
    rec.sample = {"spec": spec, "rows": [len(sa), len(sb)], "end_a": np.asarray(sa.y[-1]), "end_b": np.asarray(sb.y[-1])}
    _compare(rec, feats, info, sa, sb, eps, tol, "shift_relation", max(abs(t0 + c), abs(tf + c), abs(t0), abs(tf), 1.0))
    return rec.out()


def _reflect(spec, info, prob, dtype, eps, t0, tf, d, tol, rec, feats):
    dt = spec["dt"]
    if dt < 64 * eps * max(abs(t0), abs(tf), 1.0):
        rec.skipped = "dt below 64 ulp"
        return rec.out()
    sa, sega, _ = _run(info, prob, prob.y0, t0, tf, dt, dtype, tol)
    prob2 = Autonomous(3, spec["pseed"], d)
    prob2.sign = -1.0
    sb, segb, _ = _run(info, prob2, prob.y0, -t0, -tf, dt, dtype, tol)
    if sega["raised"] or segb["raised"]:
        rec.bump("raised")
        if bool(sega["raised"]) != bool(segb["raised"]):
            rec.violate("reflection_relation", "one_run_raised_the_other_did_not", feats, a=str(sega["raised"]), b=str(segb["raised"]),
                        cause_a=repr(getattr(sega["exc"], "__cause__", None))[:200], cause_b=repr(getattr(segb["exc"], "__cause__", None))[:200])
        return rec.out()
    rec.bump("reflect_pairs")
    if spec.get("rich"):
        rec.bump("richardson_pairs")
    rec.bump("runs_checked", 2)
    rec.bump("backward_runs", 1)
    rec.nontrivial = len(sa) >= 4
    ta = np.asarray(sa.t)
    tb = np.asarray(sb.t)
    if len(ta) == len(tb) and np.array_equal(ta, -tb) and np.array_equal(np.asarray(sa.y), np.asarray(sb.y)):
        rec.bump("reflect_bit_equal")
    rec.sample = {"spec": spec, "rows": [len(sa), len(sb)], "end_a": np.asarray(sa.y[-1]), "end_b": np.asarray(sb.y[-1])}
    _compare(rec, feats, info, sa, sb, eps, tol, "reflection_relation", max(abs(t0), abs(tf), 1.0))
    return rec.out()
