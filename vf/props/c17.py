"""C17 - interval lookup and Hermite interpolation primitives are exact (exhaustive small scope + random cubics + in-situ contract)."""
import itertools

import numpy as np

from vf import util
from vf.problems import rng_for, dtype_of

LEVEL = "exploration"
RULE = ("bisect: ALL strictly increasing arrays of length 1..7 over a 9-point grid (501 arrays) x all queries on the refined 19-point grid incl. outside "
        "the range, as list and ndarray, three dtypes, scalar and vector versions, reference model min(searchsorted(a,q,'left'), len-1) (exhaustive); "
        "hermite: random cubics on intervals of either orientation, array-valued data, end values/slopes bit-exact, values and gradients to rounding "
        "inside and outside the interval; insitu: an icontract post-condition on the production search_bisection reached through DenseOutput look-ups; "
        "non-trivial = >=1 comparison; distinct by (kind, array / seed)")
ASSUMPTIONS = ["Hermite reproduction threshold: 8*eps*cond*(1+6(1+s)^2)*(1+|t0|/|L|) with cond = sum of |basis value * datum| (evaluated per query), extrapolation up to 1.5 interval lengths"]
RULE += " Strata added in the fourth seeding round: Every array asked in descending and shuffled orders; integer / reduced-precision arrays asked with float64 queries."
EXHAUSTIVE = {"quick": True, "thorough": True}
FLOORS = {"quick": {"bisect_scalar_queries": 9000, "bisect_vector_queries": 9000, "hermite_queries": 3000, "insitu_contract_evaluations": 500, "bisect_arrays_on_scaled_axes": 120, "bisect_scalar_queries_in_other_orders": 20000, "bisect_mixed_dtype_queries": 20000},
          "thorough": {"bisect_scalar_queries": 27000, "bisect_vector_queries": 27000, "hermite_queries": 30000, "insitu_contract_evaluations": 5000, "bisect_arrays_on_scaled_axes": 300, "bisect_scalar_queries_in_other_orders": 60000, "bisect_mixed_dtype_queries": 100000}}
GRID = [float(x) for x in range(-4, 5)]
K = 8


def all_arrays():
    out = []
    for n in range(1, 8):
        for comb in itertools.combinations(GRID, n):
            out.append(list(comb))
    return out


def gen_cases(tier, seed):
    arrs = all_arrays()
    cases = []
    chunk = 60
    for dt in (["float64"] if tier == "quick" else ["float64", "float32", "longdouble"]):
        for i in range(0, len(arrs), chunk):
            cases.append(dict(kind="bisect", dtype=dt, lo=i, hi=min(len(arrs), i + chunk), cost=3))
    if tier == "quick":
        cases.append(dict(kind="bisect", dtype="float32", lo=0, hi=120, cost=3))
        cases.append(dict(kind="bisect", dtype="longdouble", lo=380, hi=501, cost=3))
    for k, mixed in enumerate(["int64", "int32", "float32", "float16"]):
        for i in (range(0, len(arrs), chunk) if tier == "thorough" else [60 * ((3 * k + 7 * seed) % 8), 60 * ((3 * k + 7 * seed + 4) % 8)]):
            cases.append(dict(kind="bisect", dtype="float64", mixed=mixed, lo=i, hi=min(len(arrs), i + chunk), cost=3))
    rng = rng_for(1701, seed)
    # the same small-scope arrays and queries under affine maps of the axis: spacings far below sqrt(eps) and far above 1, large offsets
    for (off, sc) in ((0.0, 1e-9), (0.0, 1e-12), (1.0, 2.0 ** -40), (1e6, 2.0 ** -20), (0.0, 1e9), (-3e-7, 1e-8), (-1e3, 1e-5)):
        lo = int(rng.integers(0, 440))
        cases.append(dict(kind="bisect", dtype="float64", lo=lo, hi=lo + (24 if tier == "quick" else 60), cost=2, off=off, sc=sc))
    for i in range(40 if tier == "quick" else 400):
        cases.append(dict(kind="hermite", dtype=str(rng.choice(["float64", "float64", "float32", "longdouble"])), pseed=int(rng.integers(1 << 30)), cost=1))
    for i in range(4 if tier == "quick" else 40):
        cases.append(dict(kind="insitu", direction=int(rng.choice([-1, 1])), pseed=int(rng.integers(1 << 30)), cost=4))
    return cases


def ref_index(a, q):
    return min(int(np.searchsorted(np.asarray(a), q, side="left")), len(a) - 1)


def run_case(spec):
    if spec["kind"] == "bisect":
        return _bisect(spec)
    if spec["kind"] == "hermite":
        return _hermite(spec)
    return _insitu(spec)


def _bisect(spec):
    import desolver.utilities as du
    dt = dtype_of(spec["dtype"])
    arrs = all_arrays()[spec["lo"]:spec["hi"]]
    rec = util.Rec(sig="bisect|%s|%d|%s|%s" % (spec["dtype"], spec["lo"], spec.get("mixed"), spec.get("sc")))
    feats = {"kind": "bisect", "dtype": spec["dtype"]}
    queries = [x / 2.0 for x in range(-10, 11)]
    if spec.get("sc"):
        off, sc = float(spec["off"]), float(spec["sc"])
        arrs = [[off + sc * x for x in a] for a in arrs]
        queries = [off + sc * q for q in queries]
        arrs = [a for a in arrs if all(y > x for x, y in zip(a[:-1], a[1:]))]     # (still strictly increasing after rounding)
        feats["axis"] = "off=%g,scale=%g" % (off, sc)
        rec.bump("bisect_arrays_on_scaled_axes", len(arrs))
    bad = 0
    if spec.get("mixed"):
        return _bisect_mixed(spec, arrs, queries, rec, feats)
    orders = {"ascending": list(queries), "descending": list(queries)[::-1],
              "shuffled": [queries[(7 * i + 3) % len(queries)] for i in range(len(queries))] + [queries[(5 * i + 1) % len(queries)] for i in range(len(queries))]}
    for a in arrs:
        an = np.asarray(a, dtype=dt)
        for container, name in ((list(an), "list"), (an, "ndarray")):
            # the answer is a function of (array, query) alone: every order of asking, and asking twice, gives the same indices
            for oname in ("descending", "shuffled"):
                for q in orders[oname]:
                    want = ref_index(a, q)
                    got = du.search_bisection(container, dt.type(q))
                    rec.bump("bisect_scalar_queries_in_other_orders")
                    if int(got) != want:
                        bad += 1
                        if bad <= 3:
                            rec.violate("bisection_scalar", "scalar_search_depends_on_the_order_of_queries", dict(feats, container=name, order=oname), array=a, query=q, got=int(got), want=want)
            for q in queries:
                qv = dt.type(q)
                want = ref_index(a, q)
                got = du.search_bisection(container, qv)
                rec.bump("bisect_scalar_queries")
                if int(got) != want:
                    bad += 1
                    if bad <= 3:
                        rec.violate("bisection_scalar", "scalar_search_differs_from_first_element_not_smaller", dict(feats, container=name), array=a, query=q, got=int(got), want=want)
        qa = np.asarray(queries, dtype=dt)
        gv = np.asarray(du.search_bisection_vec(an, qa.copy()))
        wv = np.array([ref_index(a, q) for q in queries])
        rec.bump("bisect_vector_queries", len(queries))
        if gv.shape != wv.shape or not np.array_equal(gv, wv):
            j = int(np.nonzero(gv != wv)[0][0]) if gv.shape == wv.shape else -1
            rec.violate("bisection_vector", "vector_search_differs_from_reference", feats, array=a, query=queries[j] if j >= 0 else None,
                        got=int(gv[j]) if j >= 0 else list(gv.shape), want=int(wv[j]) if j >= 0 else list(wv.shape))
    rec.nontrivial = True
    rec.sample = {"spec": spec, "first_array": arrs[0], "last_array": arrs[-1], "queries": queries[:5]}
    return rec.out()


def _bisect_mixed(spec, arrs, queries, rec, feats):
    """Array and queries of DIFFERENT dtypes (integer or reduced-precision grids asked with float64 times, incl. queries the array's type cannot
    represent): the comparison is between the values, so the reference is searchsorted on exact (longdouble) values."""
    import desolver.utilities as du
    adt = np.dtype(spec["mixed"])
    feats = dict(feats, array_dtype=spec["mixed"], query_dtype="float64")
    bad = 0
    for a in arrs:
        if adt.kind in "iu":
            an = np.asarray([int(round(2 * x)) for x in a], dtype=adt)      # the half-integer grid doubled: integers
            qs = [2.0 * q for q in queries] + [2.0 * q + 0.5 for q in queries] + [2.0 * q - 1e-9 for q in queries]
        else:
            an = np.asarray(a, dtype=adt)
            tiny = 1e-9 if adt == np.float32 else 1e-5
            qs = list(queries) + [q + tiny for q in queries] + [q - tiny for q in queries]
        ex = np.asarray(an, dtype=np.longdouble)
        wv = np.array([min(int(np.searchsorted(ex, np.longdouble(q), side="left")), len(an) - 1) for q in qs])
        for container, name in ((list(an), "list"), (an, "ndarray")):
            for q, want in zip(qs, wv):
                got = du.search_bisection(container, np.float64(q))
                rec.bump("bisect_mixed_dtype_queries")
                if int(got) != int(want):
                    bad += 1
                    if bad <= 3:
                        rec.violate("bisection_scalar", "scalar_search_differs_from_first_element_not_smaller", dict(feats, container=name), array=[float(x) for x in an], query=q, got=int(got), want=int(want))
        gv = np.asarray(du.search_bisection_vec(an, np.asarray(qs, dtype=np.float64)))
        rec.bump("bisect_mixed_dtype_queries", len(qs))
        if gv.shape != wv.shape or not np.array_equal(gv, wv):
            j = int(np.nonzero(gv != wv)[0][0]) if gv.shape == wv.shape else -1
            rec.violate("bisection_vector", "vector_search_differs_from_reference", feats, array=[float(x) for x in an], query=qs[j] if j >= 0 else None,
                        got=int(gv[j]) if j >= 0 else list(gv.shape), want=int(wv[j]) if j >= 0 else list(wv.shape))
    rec.nontrivial = True
    rec.sample = {"spec": spec, "first_array": arrs[0], "queries": qs[:5]}
    return rec.out()


def _hermite(spec):
    from desolver.utilities.interpolation import CubicHermiteInterp
    dt = dtype_of(spec["dtype"])
    eps = float(np.finfo(dt).eps)
    rng = rng_for(1702, spec["pseed"])
    rec = util.Rec(sig="hermite|%s|%d" % (spec["dtype"], spec["pseed"] % 1000))
    feats = {"kind": "hermite", "dtype": spec["dtype"]}
    shape = [(), (3,), (2, 2)][int(rng.integers(3))]
    coef = rng.uniform(-2, 2, (4,) + shape)
    t0 = float(rng.uniform(-3, 3))
    L = float(10 ** rng.uniform(-2, 0.7)) * float(rng.choice([-1, 1]))
    t1 = t0 + L
    feats["orientation"] = "t1<t0" if L < 0 else "t1>t0"

    def P(t):
        t = np.longdouble(t)
        return sum(np.asarray(coef[k], dtype=np.longdouble) * t ** k for k in range(4))

    def dP(t):
        t = np.longdouble(t)
        return sum(k * np.asarray(coef[k], dtype=np.longdouble) * t ** (k - 1) for k in range(1, 4))
    a0 = np.asarray(t0, dtype=dt)
    a1 = np.asarray(t1, dtype=dt)
    p0 = np.asarray(P(a0), dtype=dt)
    p1 = np.asarray(P(a1), dtype=dt)
    m0 = np.asarray(dP(a0), dtype=dt)
    m1 = np.asarray(dP(a1), dtype=dt)
    H = CubicHermiteInterp(a0, a1, p0, p1, m0, m1)
    # end values and slopes bit-exact
    for (tt, pv, mv, nm) in ((a0, p0, m0, "t0"), (a1, p1, m1, "t1")):
        if not np.array_equal(np.asarray(H(tt)), pv):
            rec.violate("hermite_end_value", "end_value_not_reproduced_exactly", dict(feats, end=nm))
        if not np.array_equal(np.asarray(H.grad(tt)), mv):
            rec.violate("hermite_end_slope", "end_slope_not_reproduced_exactly", dict(feats, end=nm))
    # data after rounding to dt define the cubic actually interpolated
    Ld = np.longdouble(a1) - np.longdouble(a0)
    p0l, p1l, m0l, m1l = (np.asarray(x, dtype=np.longdouble) for x in (p0, p1, m0, m1))

    def ref(t):
        s = (np.longdouble(t) - np.longdouble(a0)) / Ld
        h00 = 2 * s ** 3 - 3 * s ** 2 + 1
        h10 = s ** 3 - 2 * s ** 2 + s
        h01 = -2 * s ** 3 + 3 * s ** 2
        h11 = s ** 3 - s ** 2
        val = h00 * p0l + h10 * Ld * m0l + h01 * p1l + h11 * Ld * m1l
        cond = abs(h00) * np.abs(p0l) + abs(h10 * Ld) * np.abs(m0l) + abs(h01) * np.abs(p1l) + abs(h11 * Ld) * np.abs(m1l)
        d00 = (6 * s ** 2 - 6 * s) / Ld
        d10 = (3 * s ** 2 - 4 * s + 1)
        d01 = (-6 * s ** 2 + 6 * s) / Ld
        d11 = (3 * s ** 2 - 2 * s)
        g = d00 * p0l + d10 * m0l + d01 * p1l + d11 * m1l
        gcond = abs(d00) * np.abs(p0l) + abs(d10) * np.abs(m0l) + abs(d01) * np.abs(p1l) + abs(d11) * np.abs(m1l)
        return val, cond, g, gcond, float(abs(s))
    worst = 0.0
    for th in np.concatenate([rng.uniform(0, 1, 40), rng.uniform(-1.5, 2.5, 40)]):
        q = np.asarray(t0 + th * L, dtype=dt)
        val, cond, g, gcond, sabs = ref(q)
        # rounding of the affine map s=(t-t0)/L: relative eps in s, amplified by the derivative of the basis (<= 6(1+s)^2)
        unit = K * eps * (np.asarray(cond, dtype=np.float64) + 1e-300) * (1 + 6 * (1 + sabs) ** 2) * (1 + abs(float(np.longdouble(a0))) / abs(float(Ld)))
        got = np.asarray(H(q), dtype=np.longdouble)
        e = np.abs(got - val)
        rec.bump("hermite_queries")
        r = float(np.max(e / unit))
        worst = max(worst, r)
        if r > 1:
            rec.violate("hermite_value", "cubic_not_reproduced_to_rounding", dict(feats, region="inside" if 0 <= th <= 1 else "outside"), theta=float(th), err=float(np.max(e)), unit=float(np.max(unit)))
            break
        gotg = np.asarray(H.grad(q), dtype=np.longdouble)
        unitg = K * eps * (np.asarray(gcond, dtype=np.float64) + 1e-300) * (1 + 12 * (1 + sabs)) * (1 + abs(float(np.longdouble(a0))) / abs(float(Ld)))
        eg = np.abs(gotg - g)
        rg = float(np.max(eg / unitg))
        worst = max(worst, rg)
        if rg > 1:
            rec.violate("hermite_gradient", "gradient_is_not_the_derivative_of_the_value", dict(feats, region="inside" if 0 <= th <= 1 else "outside"), theta=float(th), err=float(np.max(eg)), unit=float(np.max(unitg)))
            break
    rec.worst("hermite_error_over_unit", worst)
    rec.nontrivial = True
    rec.sample = {"spec": spec, "interval": [t0, t1], "shape": list(shape), "worst_error_over_unit": worst}
    return rec.out()


_insitu_log = {"evals": 0, "bad": []}


def _post_ok(array, val, result):
    """icontract post-condition on the production search_bisection (record only; never alters the execution)."""
    _insitu_log["evals"] += 1
    a = np.asarray([float(x) for x in array])
    if len(a) > 1 and np.all(np.diff(a) > 0):
        want = ref_index(a, float(val))
        if int(result) != want and len(_insitu_log["bad"]) < 5:
            _insitu_log["bad"].append({"array_len": len(a), "query": float(val), "got": int(result), "want": want})
    return True


def _insitu(spec):
    import icontract
    import desolver.utilities as du
    import desolver.utilities.utilities as duu
    from vf import sysrun
    from vf.problems import Manufactured

    class ContractBroken(Exception):
        pass
    orig = du.search_bisection
    wrapped = icontract.ensure(_post_ok, error=ContractBroken)(orig)
    du.search_bisection = wrapped
    duu.search_bisection = wrapped
    rec = util.Rec(sig="insitu|%d|%d" % (spec["direction"], spec["pseed"] % 1000))
    try:
        _insitu_log["evals"] = 0
        _insitu_log["bad"] = []
        d = spec["direction"]
        prob = Manufactured(2, spec["pseed"], direction=d)
        t0, tf = 0.0, d * 3.0
        system = sysrun.make_system(prob.rhs, prob.ystar(t0).astype(np.float64), t0, tf, 0.05, util.methods()["RK45CKSolver"]["cls"], dense=True, rtol=1e-6, atol=1e-8)
        system.integrate()
        rng = rng_for(1703, spec["pseed"])
        for q in rng.uniform(min(t0, tf), max(t0, tf), 200):
            system.sol(np.asarray(q))
        system[float(rng.uniform(min(t0, tf), max(t0, tf)))]
    finally:
        du.search_bisection = orig
        duu.search_bisection = orig
    rec.bump("insitu_contract_evaluations", _insitu_log["evals"])
    rec.nontrivial = _insitu_log["evals"] > 0
    for b in _insitu_log["bad"]:
        rec.violate("bisection_scalar", "production_call_differs_from_reference", {"kind": "insitu", "direction": spec["direction"]}, **b)
    rec.sample = {"spec": spec, "contract_evaluations": _insitu_log["evals"]}
    return rec.out()
