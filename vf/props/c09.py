"""C09 - a terminal event stops the integration exactly at the event; the prefix stays valid; a later call continues."""
import numpy as np

from vf import util, sysrun
from vf.events import Ev, random_event_spec, true_roots, DetectionTrace
from vf.problems import Manufactured, rng_for

LEVEL = "exploration"
RULE = ("one case = (method, direction, dense flag, mix of 1..3 terminal and 0..3 non-terminal events, finite or infinite target, continuation kind); "
        "after the stop: last time = event time, last state on the event surface (relative to steepness), nothing beyond, last reported event is the "
        "terminal one and matches the EARLIEST true terminal root along the exact trajectory, earlier reports are non-terminal and earlier, status = "
        "terminated-by-event with success, C03 segment + C06 dense invariants on the prefix; then the continuation (plain / to an intermediate time / "
        "with a later terminal event) must reach its target with the same invariants; non-trivial = a terminal landing occurred; distinct by "
        "(method,direction,dense,mix,continuation,seed)")
ASSUMPTIONS = ["tangential terminal roots (|dg/dt| < 5% of scale) and runs whose node error makes root matching ambiguous are excluded",
               "continuations use no events or a different, later terminal event (re-arming the same event at its own root is not specified by the property)"]
RULE += " Strata added in the fourth seeding round: Vectorised dense queries before the terminal run, after the stop and after the continuation; event objects surveyed with other attributes first."
FLOORS = {"quick": {"terminal_landings": 50, "landings_backward": 15, "landings_with_substeps": 30, "continuations_checked": 45, "infinite_target_runs": 8,
                    "dense_checked_after_stop": 15, "second_terminal_stops": 5, "close_pair_cases": 25,
                    "landing_step_replay_steps": 60, "landings_far_from_time_origin": 8, "landings_on_a_recorded_step_end": 30, "terminal_runs_after_an_earlier_failure": 16, "continuation_step_replay_steps": 40, "array_query_before_terminal_run": 10, "array_queries_compared": 1500, "surveyed_with_other_attributes_first": 25},
          "thorough": {"terminal_landings": 500, "landings_backward": 150, "landings_with_substeps": 300, "continuations_checked": 450, "infinite_target_runs": 50,
                       "dense_checked_after_stop": 180, "second_terminal_stops": 40, "close_pair_cases": 180,
                       "landing_step_replay_steps": 600, "landings_far_from_time_origin": 40, "landings_on_a_recorded_step_end": 80, "terminal_runs_after_an_earlier_failure": 16, "continuation_step_replay_steps": 400}}
QUICK_METHODS = ["RK45CKSolver", "DOPRI45", "RK4Solver", "RK8713MSolver", "ABAs5o6HSolver", "RadauIIA5", "GaussLegendre4", "RK5Solver", "LobattoIIIC4", "RK108Solver"]
CASE_TIMEOUT = 900
K = 10.0
TERMINATED = "Integration terminated upon finding a triggered event."


def gen_cases(tier, seed):
    M = util.methods()
    rng = rng_for(901, seed)
    names = QUICK_METHODS if tier == "quick" else [n for n in M if not (M[n]["order"] <= 2 and not M[n]["adaptive"])]
    cases = []
    reps = 2 if tier == "quick" else 5
    for name in names:
        info = M[name]
        for d in (1, -1):
            for dense in (True, False):
                for r in range(reps):
                    L = float(rng.uniform(3.0, 6.0))
                    t0 = float(rng.uniform(-4, 4))
                    if r % 2 == 1 and rng.random() < 0.7:
                        # a time axis far from the origin: one ulp of t is then far above the absolute 4*eps the root finder starts from
                        t0 += float(rng.choice([-1, 1])) * float(10 ** rng.uniform(1.5, 3.2))
                    rdt = rng.random()
                    dtn = "float64" if rdt < 0.7 else ("float32" if rdt < 0.85 or not info["explicit"] else "longdouble")
                    if abs(t0) > 20:
                        dtn = "float64"
                    cases.append(dict(method=name, direction=d, dense=dense, dtype=dtn, t0=t0, tf=t0 + d * L, nsteps=float(rng.uniform(20, 50)),
                                      nterm=int(rng.integers(1, 4)), nnon=int(rng.integers(0, 4)), inf=bool(rng.random() < 0.2),
                                      cont=str(rng.choice(["plain", "to_mid", "second_terminal", "plain"])), pseed=int(rng.integers(1 << 30)),
                                      cost=(2 if info["explicit"] else 14)))
    for name in names:
        for d in (1, -1):
            for r in range(2 if tier == "quick" else 6):
                L = float(rng.uniform(3.0, 6.0))
                t0 = float(rng.uniform(-4, 4))
                cases.append(dict(method=name, direction=d, dense=bool(rng.random() < 0.5), t0=t0, tf=t0 + d * L, nsteps=float(rng.uniform(12, 30)), nterm=1, nnon=2, inf=False,
                                  cont="plain", close_pair=True, pseed=int(rng.integers(1 << 30)), cost=(2 if M[name]["explicit"] else 14)))
    # a terminal TIME event whose root is bit-identical to a recorded step end of a fixed-step run with a non-dyadic step (dt = span/n): the
    # detection locates it exactly on the boundary of its step, where every closed-interval test is one rounding away from failing
    fixed = [n for n in names if not M[n]["adaptive"] and M[n]["explicit"]] or ["RK4Solver"]
    for name in (fixed if tier == "thorough" else fixed[:3] + ["RK4Solver"]):
        for d in (1, -1):
            for r in range(6 if tier == "quick" else 12):
                t0 = float(rng.choice([0.0, 0.0, float(rng.uniform(-2, 2))]))
                cases.append(dict(method=name, direction=d, dense=bool(rng.random() < 0.5), t0=t0, tf=t0 + d * 3.0, nsteps=30.0, nterm=1, nnon=0, inf=False, cont="plain",
                                  grid_terminal=int(rng.integers(2, 28)), pseed=int(rng.integers(1 << 30)), cost=3))
    # the terminal run FOLLOWS an earlier call on the same system that ended in a failure (a raising right-hand side or a KeyboardInterrupt from a
    # callback): the stop must still report "terminated by event" as a success
    for name in names[:6]:
        for d in (1, -1):
            for fk in ("rhs_fault", "keyboard_interrupt"):
                L = float(rng.uniform(3.0, 6.0))
                t0 = float(rng.uniform(-4, 4))
                cases.append(dict(method=name, direction=d, dense=bool(rng.random() < 0.5), t0=t0, tf=t0 + d * L, nsteps=float(rng.uniform(20, 50)), nterm=1, nnon=1, inf=False,
                                  cont="plain", after_failure=fk, pseed=int(rng.integers(1 << 30)), cost=(3 if M[name]["explicit"] else 16)))
    return cases


def run_case(spec):
    M = util.methods()
    info = M[spec["method"]]
    d = spec["direction"]
    t0, tf = spec["t0"], spec["tf"]
    dim = 2
    prob = Manufactured(dim, spec["pseed"], direction=d, freq=(1.0, 3.0))
    rng = rng_for(902, spec["pseed"])
    from vf.problems import dtype_of
    dt_ = dtype_of(spec.get("dtype", "float64"))
    eps = max(float(np.finfo(dt_).eps), 2.3e-16)
    kinds = ["component", "linear", "time", "norm2"]
    tspecs = [random_event_spec(rng, prob, t0, t0 + 0.8 * (tf - t0), dim, terminal=True, kinds=kinds, scale_decades=(-4, 4)) for _ in range(spec["nterm"])]
    nspecs = [random_event_spec(rng, prob, t0, tf, dim, terminal=False, kinds=kinds, scale_decades=(-4, 4)) for _ in range(spec["nnon"])]
    if spec.get("close_pair"):
        # a non-terminal and a terminal TIME event whose roots lie within a small fraction of one step of each other, in both time orders;
        # the final list order below is a random permutation, so list order and time order disagree in about half of the cases
        tcp = t0 + float(rng.uniform(0.3, 0.7)) * (tf - t0)
        delta = float(rng.uniform(0.02, 0.3)) * abs(tf - t0) / spec["nsteps"] * float(rng.choice([-1, 1]))
        tspecs = [{"kind": "time", "scale": float(10 ** rng.uniform(-2, 2)) * float(rng.choice([-1, 1])), "c": tcp, "direction": 0, "terminal": True}]
        nspecs = [{"kind": "time", "scale": float(10 ** rng.uniform(-2, 2)) * float(rng.choice([-1, 1])), "c": tcp + delta, "direction": 0, "terminal": False},
                  {"kind": "time", "scale": float(10 ** rng.uniform(-2, 2)), "c": tcp - 0.5 * delta, "direction": 0, "terminal": False}]
    if spec.get("grid_terminal"):
        # reference run without events: the k-th recorded time is the level of the terminal time event
        ref_ = sysrun.make_system(lambda t, y, **kw: prob.rhs(t, y), prob.ystar(t0).astype(np.float64), t0, tf, abs(tf - t0) / spec["nsteps"], info["cls"])
        sysrun.call_integrate(ref_, max_steps=2000)
        k_ = min(int(spec["grid_terminal"]), len(ref_) - 2)
        tspecs = [{"kind": "time", "scale": float(10 ** rng.uniform(-2, 2)) * float(rng.choice([-1, 1])), "c": float(ref_.t[k_]), "direction": 0, "terminal": True}]
        nspecs = []
    if spec["inf"]:
        # an indefinite run needs a terminal event that certainly fires
        tspecs.append({"kind": "time", "scale": float(10 ** rng.uniform(-3, 3)), "c": t0 + 0.9 * (tf - t0), "direction": 0, "terminal": True})
    order = list(rng.permutation(len(tspecs) + len(nspecs)))
    allspecs = [(tspecs + nspecs)[i] for i in order]
    events = [Ev(s, dim) for s in allspecs]
    rec = util.Rec(sig="%s|%d|%s|%d%d|%s|%s|%d" % (spec["method"], d, spec["dense"], spec["nterm"], spec["nnon"], spec["inf"], spec["cont"], spec["pseed"] % 7))
    feats = {"method": spec["method"], "family": info["family"], "direction": d, "dense": bool(spec["dense"]), "infinite_target": bool(spec["inf"]), "continuation": spec["cont"]}

    def f(t, y, **kw):
        return prob.rhs(t, y)
    y0 = prob.ystar(t0).astype(dt_)
    y0c = y0.copy()
    L = abs(tf - t0)
    rt_ = 1e-7 if info["order"] > 2 else 1e-5
    teps_ = None
    if spec.get("dtype") == "float32":
        rt_ = 1e-4
        # implicit methods carry float64 increments inside a float32 run: piece end points agree with the recorded times to rounding only
        teps_ = float(np.finfo(np.float32).eps) if not info["explicit"] else None
    system = sysrun.make_system(f, y0, t0, tf, dt_.type(L / spec["nsteps"]), info["cls"], dense=spec["dense"], rtol=rt_, atol=rt_ * 1e-2)
    target = (np.inf * d) if spec["inf"] else None
    import warnings
    if spec.get("after_failure"):
        # an earlier call over the first 15% of the span ends in a failure; the system is NOT reset
        st_ = {"n": 0, "armed": True}
        f_orig = f

        class _Boom(Exception):
            pass
        if spec["after_failure"] == "rhs_fault":
            def f_faulty(t, y, **kw):
                st_["n"] += 1
                if st_["armed"] and st_["n"] == 25:
                    raise _Boom("injected")
                return f_orig(t, y)
            system = sysrun.make_system(f_faulty, y0, t0, tf, dt_.type(L / spec["nsteps"]), info["cls"], dense=spec["dense"], rtol=rt_, atol=rt_ * 1e-2)
            pre = sysrun.call_integrate(system, t=t0 + 0.15 * (tf - t0), max_steps=20000)
        else:
            def kb(s_):
                if st_["armed"] and len(s_) >= 3:
                    raise KeyboardInterrupt()
            pre = sysrun.call_integrate(system, t=t0 + 0.15 * (tf - t0), callback=kb, max_steps=20000)
        st_["armed"] = False
        if pre["raised"]:
            rec.bump("terminal_runs_after_an_earlier_failure")
        feats["after_failure"] = spec["after_failure"]
    if spec["pseed"] % 3 == 1 and not spec.get("grid_terminal"):
        # "survey first, then stop at the first": the SAME event function objects are first monitored by another system with every terminal flag
        # off and no direction filter; afterwards the flags are set as the case wants them - what counts is the attribute at the time of the call
        saved = [(e.is_terminal, e.direction) for e in events]
        for e in events:
            e.is_terminal, e.direction = False, 0
        try:
            scout = sysrun.make_system(f, y0.copy(), t0, tf, dt_.type(L / spec["nsteps"]), info["cls"], dense=False, rtol=rt_, atol=rt_ * 1e-2)
            with warnings.catch_warnings():
                warnings.simplefilter("ignore")
                sc_ = sysrun.call_integrate(scout, t=t0 + 0.3 * (tf - t0), events=events, max_steps=20000)
            if not sc_["raised"]:
                rec.bump("surveyed_with_other_attributes_first")
                feats["surveyed_first"] = True
        finally:
            for e, (it_, di_) in zip(events, saved):
                e.is_terminal, e.direction = it_, di_
    if spec["dense"] and not spec.get("after_failure") and spec["pseed"] % 3 == 0:
        # an event-free first leg, then a VECTORISED dense query before the terminal run starts (whatever the dense output caches for array
        # queries has to survive the roll-back of the step that crosses the terminal event)
        pre = sysrun.call_integrate(system, t=t0 + 0.12 * (tf - t0), max_steps=20000)
        if not pre["raised"] and len(system) > 2:
            system.sol(np.linspace(float(system.t[0]), float(system.t[-1]), 7).astype(dt_))
            rec.bump("array_query_before_terminal_run")
            feats["array_query_before_terminal_run"] = True
    t_start = float(system.t[-1])      # (after an earlier, failed call the terminal run starts later than t0: only what lies ahead of it can fire)
    trace = DetectionTrace()
    try:
        with warnings.catch_warnings():
            warnings.simplefilter("ignore")
            seg = sysrun.call_integrate(system, t=target, events=events, max_steps=20000)
    finally:
        trace.close()
    # the step in which the terminal event was found is rolled back and never recorded: its length comes from the trace
    h_det = max([abs(st["t_next"] - st["t_prev"]) for st in trace.steps if st.get("terminate")] + [0.0])
    if spec["inf"]:
        rec.bump("infinite_target_runs")
    if seg["raised"]:
        cause = getattr(seg["exc"], "__cause__", None)
        rec.violate("terminal_run_raised", type(cause or seg["exc"]).__name__, feats, err=repr(cause or seg["exc"])[:300], rows=len(system))
        return rec.out()
    t = np.asarray(system.t)
    y = np.asarray(system.y)
    evs = list(system.events)
    idx_of = {id(e): j for j, e in enumerate(events)}
    # ---- true terminal roots along the exact trajectory (direction-compatible), classified certain / possible
    t_end_search = tf if not spec["inf"] else t0 + d * 3 * L
    troots = []   # (time, dg/dt, event index, certain)
    hgrid = float(np.max(np.abs(np.diff(np.asarray(system.t))))) if len(system) > 1 else L
    hgrid = max(hgrid, h_det)
    for j, ev in enumerate(events):
        if not ev.is_terminal:
            continue
        roots, gmax = true_roots(ev, prob, t_start, t_end_search, n=6000)
        for i, (tr_, gd_) in enumerate(roots):
            if abs(tr_ - t_start) < 1e-9 * L:
                continue
            if ev.direction != 0 and ((gd_ * d) > 0) != (ev.direction > 0):
                continue
            gap = min([abs(tr_ - r[0]) for k_, r in enumerate(roots) if k_ != i] + [np.inf])
            certain = gap > 2.5 * hgrid and abs(gd_) >= 0.05 * gmax / abs(t_end_search - t0)
            troots.append((tr_, gd_, j, certain))
    troots.sort(key=lambda r: d * r[0])
    certain_roots = [r for r in troots if r[3]]
    best = certain_roots[0] if certain_roots else None
    ambiguous = bool(troots) and not troots[0][3]
    node = max(float(np.max(np.abs(y[k].astype(np.longdouble) - prob.ystar(float(t[k]))))) for k in range(len(t)))
    hmax = max(float(np.max(np.abs(np.diff(t)))) if len(t) > 1 else 0.0, h_det)
    dy = node + hmax ** 4 * prob.d4ystar_max() / 384.0 + 64 * eps * (1 + float(np.max(np.abs(y))))
    ymax = float(np.max(np.abs(y)))
    stopped = system.integration_status == TERMINATED
    last_terminal = bool(evs) and events[idx_of[id(evs[-1].event)]].is_terminal
    rec.sample = {"spec": {k: spec[k] for k in ("method", "direction", "dense", "t0", "tf", "inf", "cont")}, "events": allspecs[:2], "rows": len(t),
                  "status": system.integration_status, "reported": len(evs), "expected_terminal_time": None if best is None else best[0]}
    if best is None:
        # no terminal crossing expected: the run must simply complete (not our subject; only sanity)
        if stopped and not troots:
            rec.violate("spurious_terminal_stop", "stopped_although_no_true_terminal_root", feats, t_last=float(t[-1]))
        if spec["inf"]:
            rec.skipped = "infinite target without terminal root"
        return rec.out()
    tr, gd, jt, _c = best
    evT = events[jt]

    def grad_h(ev):
        return abs(ev.s) * (float(np.sum(np.abs(ev.w))) if ev.kind == "linear" else (2 * ymax if ev.kind == "norm2" else 1.0))
    tolx = max(4 * eps * (1 + abs(tr)), 4 * float(np.spacing(abs(tr))))
    loc_tol = K * ((0.0 if evT.kind == "time" else dy) * grad_h(evT) / abs(gd) + tolx)
    if loc_tol > 0.02 * L:
        rec.skipped = "run too inaccurate for matching"
        return rec.out()
    if not stopped:
        rec.violate("terminal_not_stopped", "status_not_terminated_by_event", feats, status=system.integration_status, t_last=float(t[-1]), expected=tr, event=evT.spec)
        return rec.out()
    rec.bump("terminal_landings")
    if spec.get("grid_terminal"):
        rec.bump("landings_on_a_recorded_step_end")
    if spec.get("dtype", "float64") != "float64":
        rec.bump("landings_in_" + spec["dtype"])
    if abs(t0) > 20:
        rec.bump("landings_far_from_time_origin")
    rec.nontrivial = True
    if d < 0:
        rec.bump("landings_backward")
    if not system.success:
        rec.violate("terminal_status", "terminated_by_event_but_success_false", feats)
    if not evs or not last_terminal:
        rec.violate("terminal_reporting", "last_reported_event_is_not_terminal", feats, n_events=len(evs))
        return rec.out()
    te = float(evs[-1].t)
    # (a) last recorded time = event time
    if abs(float(t[-1]) - te) > 64 * eps * max(1.0, abs(te)):
        rec.violate("terminal_time", "last_recorded_time_differs_from_event_time", feats, t_last=float(t[-1]), t_event=te)
    # (b) the reported terminal event is a true (direction-compatible) root of ITS function, and no certain
    #     terminal root lies earlier along the direction of integration
    jl = idx_of[id(evs[-1].event)]
    mine = [r for r in troots if r[2] == jl]
    if not mine:
        rec.violate("terminal_earliest", "stopped_where_its_function_has_no_compatible_root", feats, t_event=te, event=events[jl].spec)
    else:
        k_ = int(np.argmin([abs(r[0] - te) for r in mine]))
        trm, gdm = mine[k_][0], mine[k_][1]
        evM = events[jl]
        loc_m = K * ((0.0 if evM.kind == "time" else dy) * grad_h(evM) / max(abs(gdm), 1e-300) + tolx)
        if loc_m > 0.02 * L:
            rec.bump("skipped_terminal_location_run_too_inaccurate")       # (this function's own location tolerance: the run cannot identify its crossings)
        elif mine[k_][3]:
            rec.worst("terminal_location_over_tol", abs(te - trm) / loc_m)
            if abs(te - trm) > loc_m:
                rec.violate("terminal_earliest", "terminal_event_time_far_from_true_root", feats, t_event=te, nearest_true_root=trm, tol=loc_m, event=evM.spec)
    for (trc, gdc, jc, _c) in certain_roots:
        evC = events[jc]
        loc_c = K * ((0.0 if evC.kind == "time" else dy) * grad_h(evC) / abs(gdc) + tolx)
        if d * (trc - te) < -loc_c:
            rec.violate("terminal_earliest", "stopped_at_a_later_terminal_root", feats, t_event=te, earlier_certain_root=trc, tol=loc_c, event=evC.spec)
            break
    # (c) last state on the event surface, relative to steepness (the landing re-integrates to the root time)
    evL = events[idx_of[id(evs[-1].event)]]
    gl = evL.value(t[-1], y[-1], lambda tt, yy: prob.rhs(tt, yy))
    res_tol = K * (grad_h(evL) * dy * 2 + abs(gd) * tolx * 4 + 64 * eps * evL.gscale(float(np.max(np.abs(t))) if evL.kind == "time" else ymax))
    rec.worst("terminal_residual_over_tol", abs(gl) / res_tol)
    if abs(gl) > res_tol:
        rec.violate("terminal_surface", "last_state_not_on_event_surface", dict(feats, ev_kind=evL.kind), g=gl, tol=res_tol)
    # (d) earlier reports: non-terminal and not later than the terminal one; ordered
    for e in evs[:-1]:
        if events[idx_of[id(e.event)]].is_terminal:
            rec.violate("terminal_reporting", "more_than_one_terminal_event_reported", feats, times=[float(x.t) for x in evs])
            break
        if d * (float(e.t) - te) > tolx:
            rec.violate("terminal_reporting", "non_terminal_event_after_the_terminal_one", feats, t_nonterm=float(e.t), t_term=te)
            break
    tt_ = np.array([float(e.t) for e in evs])
    if len(tt_) > 1 and not np.all(d * np.diff(tt_) >= 0):
        rec.violate("terminal_reporting", "events_not_in_order", feats, times=[float(x) for x in tt_[:8]])
    if spec.get("close_pair"):
        rec.bump("close_pair_cases")
        tnon = [e.c for e in events if not e.is_terminal]
        rep_non = [float(e.t) for e in evs[:-1]]
        for c_ in tnon:
            before = d * (c_ - te) < -tolx * 4
            found = any(abs(x - c_) <= 1e-6 * L for x in rep_non)
            if before and not found:
                rec.violate("terminal_reporting", "non_terminal_event_before_the_terminal_one_not_reported", feats, t_nonterm=c_, t_term=te, reported=rep_non[:5])
            if (not before) and d * (c_ - te) > tolx * 4 and found:
                rec.violate("terminal_reporting", "non_terminal_event_after_the_terminal_one_reported", feats, t_nonterm=c_, t_term=te)
    # (e) C03 segment invariants for the stop (target = event time): nothing beyond, monotone, paired, first row = y0
    if len(t) >= 3 and abs(float(t[-1]) - float(t[-2])) < abs(float(t[-2]) - float(t[-3])) * 0.999 or len(t) > 2:
        rec.bump("landings_with_substeps")
    sysrun.segment_invariants(rec, system, seg, np.asarray(evs[-1].t, dtype=np.longdouble), feats, y0_copy=y0c, clause_prefix="prefix_")
    if spec["dense"]:
        rec.bump("dense_checked_after_stop")
        sysrun.dense_structure(rec, system, feats, expect_times=t, clause_prefix="prefix_", time_eps=teps_)
        sol = system.sol
        for q in np.linspace(float(t[0]), float(t[-1]), 25):
            v = np.asarray(sol(np.asarray(q)), dtype=np.longdouble)
            e_ = float(np.max(np.abs(v - prob.ystar(float(q)))))
            if e_ > 4 * dy * (1 + prob.lipschitz() * hmax) * 2 + 1e-12:
                rec.violate("prefix_dense_accuracy", "dense_solution_inaccurate_on_the_prefix", feats, q=float(q), err=e_, bound=4 * dy)
                break
        _array_vs_scalar(rec, sol, t, dt_, feats, "prefix_dense_array_query")
    # (f) the sub-steps that land on the root start from the row BEFORE the rolled-back step: nothing of that step may leak into them
    tprev = [st["t_prev"] for st in trace.steps if st.get("terminate")]
    if tprev:
        k0 = int(np.argmin(np.abs(t - tprev[-1])))
        sysrun.replay_steps(rec, info, f, t, y, range(max(0, k0 - 1), len(t) - 1), feats, rt_, rt_ * 1e-2, prob.lipschitz(), clause="landing_step_replay")
    # ---- continuation
    n_before = len(system)
    cont = spec["cont"]
    cont_events = None
    cont_target = None
    tgt_eff = tf
    if cont == "to_mid":
        cont_target = te + 0.5 * (tf - te)
        tgt_eff = cont_target
    if spec["inf"] and cont != "to_mid":
        cont_target = te + d * 0.5 * L
        tgt_eff = cont_target
    second = None
    if cont == "second_terminal":
        s2 = {"kind": "time", "scale": float(10 ** rng.uniform(-2, 2)), "c": te + 0.5 * (tgt_eff - te), "direction": 0, "terminal": True}
        second = Ev(s2, dim)
        cont_events = [second]
    if abs(tgt_eff - te) < 1e-6 * L:
        return rec.out()
    seg2 = sysrun.call_integrate(system, t=cont_target, events=cont_events, max_steps=20000)
    f2 = dict(feats, phase="continuation")
    if seg2["raised"]:
        cause = getattr(seg2["exc"], "__cause__", None)
        rec.violate("continuation_raised", type(cause or seg2["exc"]).__name__, f2, err=repr(cause or seg2["exc"])[:300])
        return rec.out()
    rec.bump("continuations_checked")
    t2 = np.asarray(system.t)
    y2 = np.asarray(system.y)
    if second is not None:
        tgt_eff = second.c
        rec.bump("second_terminal_stops")
        if system.integration_status != TERMINATED:
            rec.violate("continuation_terminal", "second_terminal_event_not_honoured", f2, status=system.integration_status, t_last=float(t2[-1]), expected=second.c)
    elif not system.success:
        # (the property fixes the status text only for the stop itself; afterwards only success is required)
        rec.violate("continuation_status", "status_after_plain_continuation_not_success", f2, status=system.integration_status)
    sysrun.segment_invariants(rec, system, seg2, tgt_eff, f2, y0_copy=y0c, clause_prefix="continuation_")
    if len(t2) <= n_before:
        rec.violate("continuation_progress", "continuation_recorded_no_step", f2, rows=[n_before, len(t2)])
    # the prefix must be untouched by the continuation
    if not (np.array_equal(t2[:n_before], t) and np.array_equal(y2[:n_before], y)):
        rec.violate("continuation_prefix", "continuation_modified_rows_before_the_event", f2)
    sysrun.replay_steps(rec, info, f, t2, y2, range(n_before - 1, min(n_before + 1, len(t2) - 1)), f2, rt_, rt_ * 1e-2, prob.lipschitz(), clause="continuation_step_replay")
    node2 = max(float(np.max(np.abs(y2[k].astype(np.longdouble) - prob.ystar(float(t2[k]))))) for k in range(n_before - 1, len(t2)))
    rec.worst("continuation_node_error", node2)
    if info["adaptive"] and node2 > 2000 * (rt_ * 1e-2 + rt_ * (1 + ymax)):
        rec.violate("continuation_accuracy", "states_of_continuation_inaccurate", f2, err=node2)
    if spec["dense"]:
        sysrun.dense_structure(rec, system, f2, expect_times=t2, clause_prefix="continuation_", time_eps=teps_)
        sol = system.sol
        h2 = float(np.max(np.abs(np.diff(t2))))
        nodeall = max(node, node2)
        bound2 = 4 * (h2 ** 4 * prob.d4ystar_max() / 384.0 + nodeall * (1 + prob.lipschitz() * h2) * 2) + 1e-12
        for q in np.linspace(float(t2[0]), float(t2[-1]), 40):
            v = np.asarray(sol(np.asarray(q)), dtype=np.longdouble)
            e_ = float(np.max(np.abs(v - prob.ystar(float(q)))))
            if e_ > bound2:
                rec.violate("continuation_dense_accuracy", "dense_solution_inaccurate_after_continuation", f2, q=float(q), err=e_, bound=bound2)
                break
        _array_vs_scalar(rec, sol, t2, dt_, f2, "continuation_dense_array_query")
    return rec.out()


def _array_vs_scalar(rec, sol, t, dt_, feats, clause):
    """A vectorised query is the stack of the scalar ones (the scalar ones are judged against the exact solution by the caller)."""
    q = np.linspace(float(t[0]), float(t[-1]), 31).astype(dt_)
    try:
        va = np.asarray(sol(q), dtype=np.longdouble)
        vs = np.stack([np.asarray(sol(q[i]), dtype=np.longdouble) for i in range(len(q))])
    except Exception as e:
        rec.violate(clause, "dense_query_raised", feats, err=repr(e)[:200])
        return
    rec.bump("array_queries_compared", len(q))
    eps_ = float(np.finfo(dt_).eps)
    if va.shape != vs.shape or float(np.max(np.abs(va - vs) / (1.0 + np.abs(vs)))) > 64 * eps_:
        bad = int(np.argmax(np.max(np.abs(va - vs), axis=tuple(range(1, vs.ndim))))) if va.shape == vs.shape else -1
        rec.violate(clause, "array_query_differs_from_scalar_queries", feats, q=float(q[bad]) if bad >= 0 else None,
                    diff=float(np.max(np.abs(va - vs))) if va.shape == vs.shape else None, shapes=[list(va.shape), list(vs.shape)])
