"""Executes one shard of cases of one property in a fresh interpreter, instrumentation on."""
import json
import os
import signal
import sys
import time
import traceback
import warnings


class CaseTimeout(BaseException):
    pass


def _alarm(signum, frame):
    raise CaseTimeout()


def _die_with_parent():
    # a worker must not outlive the runner that collects its output (killed runner, shard timeout)
    try:
        import ctypes
        ctypes.CDLL("libc.so.6", use_errno=True).prctl(1, signal.SIGKILL)   # PR_SET_PDEATHSIG
    except Exception:
        pass


def _arm(seconds):
    # re-fires every 20 s after the first expiry: a handler somewhere that swallows the first CaseTimeout does not disarm the watchdog
    signal.setitimer(signal.ITIMER_REAL, seconds, 20.0 if seconds else 0.0)


def main():
    shard_path, out_path = sys.argv[1], sys.argv[2]
    _die_with_parent()
    warnings.simplefilter("ignore")
    from vf import core
    core.activate_repo()
    cov = None
    if os.environ.get("VERIF_LINECOV_DIR"):
        # development aid (tools/linecov.sh): which repository lines / branches do the workloads of a check actually execute
        import coverage
        cov = coverage.Coverage(data_file=os.path.join(os.environ["VERIF_LINECOV_DIR"], ".coverage"), data_suffix=True, branch=True,
                                source=[os.path.join(core.repo_dir(), "desolver")], omit=["*/tests/*"])
        cov.start()
    import numpy as np
    np.seterr(all="ignore")
    with open(shard_path) as fh:
        shard = json.load(fh)
    pid = shard["pid"]
    mod = core.load_prop(pid)
    from vf import instrument
    instrument.install_global()
    setup = getattr(mod, "worker_setup", None)
    if setup:
        setup(shard)
    signal.signal(signal.SIGALRM, _alarm)
    case_timeout = int(os.environ.get("VERIF_CASE_TIMEOUT", getattr(mod, "CASE_TIMEOUT", 300)))
    repo = core.repo_dir()
    with open(out_path, "w") as out:
        for spec in shard["cases"]:
            t0 = time.time()
            rec = None
            _arm(case_timeout)
            try:
                rec = mod.run_case(spec)
                _arm(0)
            except CaseTimeout:
                rec = {"timeout": True}
            except BaseException as e:  # noqa
                _arm(0)
                if isinstance(getattr(e, "__cause__", None), CaseTimeout):
                    out.write(core.dumps({"timeout": True, "case_id": spec.get("case_id"), "spec": spec, "violations": []}) + "\n")
                    out.flush()
                    continue
                np_ = e if type(e).__name__ == "NoProgress" else getattr(e, "__cause__", None)
                if type(np_).__name__ == "NoProgress":
                    # the loop guard's logical budget ran out inside a repository loop that is bounded by design
                    tbn = traceback.extract_tb(np_.__traceback__)
                    frames = [fr for fr in tbn if os.path.abspath(fr.filename).startswith(repo + os.sep)]
                    where = "%s:%s" % (os.path.basename(frames[-1].filename), frames[-1].name) if frames else "?"
                    txtn = "".join(traceback.format_exception(type(np_), np_, np_.__traceback__))
                    if getattr(mod, "NO_PROGRESS_IS_VIOLATION", False):
                        rec = {"violations": [{"clause": "no_progress", "mechanism": "loop_bounded_by_design_does_not_terminate",
                                               "features": {"where": where, "direction": spec.get("direction", spec.get("d"))},
                                               "detail": {"message": str(np_), "traceback": txtn[-1200:]}}], "sig": "noprogress", "nontrivial": False}
                    else:
                        rec = {"timeout": True, "no_progress": where}
                    rec["case_id"] = spec.get("case_id")
                    rec["spec"] = spec
                    rec.setdefault("violations", [])
                    out.write(core.dumps(rec) + "\n")
                    out.flush()
                    continue
                tb = traceback.extract_tb(e.__traceback__)
                in_repo = bool(tb) and os.path.abspath(tb[-1].filename).startswith(repo + os.sep)
                txt = "".join(traceback.format_exception(type(e), e, e.__traceback__))
                if in_repo and getattr(mod, "REPO_EXCEPTION_IS_VIOLATION", True):
                    rec = {"violations": [{"clause": "unexpected_exception", "mechanism": type(e).__name__,
                                           "features": {"where": "%s:%s" % (os.path.basename(tb[-1].filename), tb[-1].name)},
                                           "detail": {"traceback": txt[-1500:]}}],
                           "sig": "exc", "nontrivial": False}
                else:
                    rec = {"harness_error": txt[-2000:]}
            finally:
                _arm(0)
            rec.setdefault("violations", [])
            rec["case_id"] = spec.get("case_id")
            rec["spec"] = spec
            rec["wall"] = round(time.time() - t0, 3)
            out.write(core.dumps(rec) + "\n")
            out.flush()
        g = instrument.global_report()
        fin = getattr(mod, "worker_finish", None)
        if fin:
            extra = fin()
            for k, v in extra.get("counters", {}).items():
                g["counters"][k] = g["counters"].get(k, 0) + v
            g["violations"].extend(extra.get("violations", []))
        out.write(core.dumps({"_done": True, "global": g}) + "\n")
    if cov is not None:
        cov.stop()
        cov.save()


if __name__ == "__main__":
    main()
