"""Runtime-monitoring machinery for desolver properties C01..C20 (see /verif/DESIGN.md)."""
