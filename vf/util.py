"""Shared helpers: method registry (computed at run time from the tree), integrator construction, records."""
import numpy as np


def methods():
    """name -> info dict, computed from the repository's own registries and instance flags."""
    import desolver.integrators as I
    out = {}
    for c in list(I.explicit_methods()) + list(I.implicit_methods()):
        splitting = issubclass(c, I.ExplicitSymplecticIntegrator)
        inst = c((2,), dtype=np.dtype("float64"))
        info = dict(name=c.__name__, cls=c, order=int(round(float(c.__order__))), splitting=splitting,
                    explicit=bool(inst.is_explicit), adaptive=bool(inst.is_adaptive), fsal=bool(inst.is_fsal),
                    symplectic=bool(c.symplectic), stages=int(inst.stages))
        if splitting:
            fam = "splitting"
        elif info["explicit"]:
            fam = "explicit_adaptive" if info["adaptive"] else "explicit_fixed"
        else:
            fam = "implicit_adaptive" if info["adaptive"] else "implicit_fixed"
        info["family"] = fam
        out[c.__name__] = info
    return out


def richardson(base_cls, n):
    import desolver.integrators as I
    return I.generate_richardson_integrator(base_cls, richardson_iter=n)


def resolve_cls(name, M=None):
    """'RK4Solver' -> class; 'R3:RK4Solver' -> Richardson wrapper (3 levels) of it."""
    M = M or methods()
    if name.startswith("R") and ":" in name:
        lv, base = name.split(":", 1)
        return richardson(M[base]["cls"], int(lv[1:]))
    return M[name]["cls"]


def passthrough_adaptation(intg):
    """The library's public `adaptation_fn` extension point: never shrink/reject on the error estimate."""
    if getattr(intg, "solver_dict", None) is None:
        return  # splitting integrators have no controller at all

    def fn(s):
        return s.solver_dict.get("timestep", 1.0), False
    intg.adaptation_fn = fn


class Rec:
    """Per-case result accumulator."""

    def __init__(self, sig, sample=None):
        self.sig = sig
        self.violations = []
        self.counters = {}
        self.maxima = {}
        self.nontrivial = False
        self.sample = sample
        self.skipped = None

    def bump(self, k, n=1):
        self.counters[k] = self.counters.get(k, 0) + int(n)

    def worst(self, k, v):
        v = float(v)
        if v != v:
            v = float("inf")
        if k not in self.maxima or v > self.maxima[k]:
            self.maxima[k] = v

    def violate(self, clause, mechanism="unattributed", features=None, **detail):
        if len(self.violations) < 12:
            self.violations.append({"clause": clause, "mechanism": mechanism, "features": features or {}, "detail": detail})
        self.bump("violations_" + clause)

    def out(self):
        d = {"sig": self.sig, "violations": self.violations, "counters": self.counters, "maxima": self.maxima,
             "nontrivial": bool(self.nontrivial), "sample": self.sample}
        if self.skipped:
            d["skipped"] = self.skipped
        return d


def fl(x):
    return float(np.asarray(x))


def relerr(a, b):
    a = np.asarray(a, dtype=np.longdouble)
    b = np.asarray(b, dtype=np.longdouble)
    return float(np.max(np.abs(a - b) / (1 + np.abs(b)))) if a.size else 0.0
