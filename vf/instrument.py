"""Harness-side instrumentation (nothing here edits the repository; active only inside check workers).

* shared-state guard: checksums of every class-level coefficient table / declared order / registry at worker
  start and end (a change means hidden state leaked between calls: reported as a violation of whatever
  property is running, clause `class_state_mutated`).
* Recorder helpers used by property modules: step-attempt log on an integrator instance, call counters,
  fault shims, sys.monitoring reach markers located by source pattern.
"""
import hashlib
import inspect
import sys

import numpy as np

_state = {"checksum0": None, "counters": {}, "violations": []}


def all_method_classes():
    import desolver.integrators as I
    out = []
    for c in list(I.explicit_methods()) + list(I.implicit_methods()):
        out.append(c)
    return out


def _checksum():
    import desolver.integrators as I
    h = hashlib.sha1()
    for c in all_method_classes():
        h.update(c.__name__.encode())
        h.update(np.asarray(c.tableau_intermediate).tobytes())
        tf = getattr(c, "tableau_final", None)
        if tf is not None:
            h.update(np.asarray(tf).tobytes())
        h.update(repr(c.__order__).encode())
        h.update(repr(c.symplectic).encode())
    h.update(repr(sorted(I.available_methods())).encode())
    return h.hexdigest()


def install_global():
    _state["checksum0"] = _checksum()


def global_report():
    viol = list(_state["violations"])
    c1 = _checksum()
    cnt = dict(_state["counters"])
    cnt["class_state_checksums"] = 1
    if c1 != _state["checksum0"]:
        viol.append({"clause": "class_state_mutated", "mechanism": "tableau_or_registry_changed",
                     "features": {}, "detail": {"before": _state["checksum0"], "after": c1}})
    return {"counters": cnt, "violations": viol}


def bump(name, n=1):
    _state["counters"][name] = _state["counters"].get(name, 0) + n


# --------------------------------------------------------------------------------------------
class StepLog:
    """Wraps `integrator.step` on ONE instance: records every attempt (|h| requested, Newton flag)."""

    def __init__(self, integrator):
        self.attempts = []      # list of dicts per attempt
        self.calls = []         # per __call__: list of attempt indices
        self._intg = integrator
        orig = getattr(integrator, "step", None)
        log = self

        def step(rhs, initial_time, initial_state, constants, timestep):
            rec = {"h": float(np.asarray(timestep)), "t": float(np.asarray(initial_time)), "raised": None}
            log.attempts.append(rec)
            try:
                out = orig(rhs, initial_time, initial_state, constants, timestep)
            except BaseException as e:
                rec["raised"] = type(e).__name__
                raise
            sd = getattr(integrator, "solver_dict", None) or {}
            if "newton_iteration_success" in sd:
                rec["newton_ok"] = bool(sd["newton_iteration_success"])
            return out

        if hasattr(integrator, "adaptive_richardson"):
            orig_ar = integrator.adaptive_richardson

            def adaptive_richardson(rhs, t, y, constants, timestep):
                rec = {"h": float(np.asarray(timestep)), "t": float(np.asarray(t)), "raised": None, "richardson": True}
                log.attempts.append(rec)
                try:
                    return orig_ar(rhs, t, y, constants, timestep)
                except BaseException as e:
                    rec["raised"] = type(e).__name__
                    raise
            integrator.adaptive_richardson = adaptive_richardson
        else:
            integrator.step = step


# --------------------------------------------------------------------------------------------
class ReachMarkers:
    """sys.monitoring LINE markers located by *source pattern* inside given functions; DISABLE after first hit."""

    TOOL = 3

    def __init__(self):
        self.marks = {}    # name -> (code, lineno)
        self.hit = {}
        self.missing = []
        self._on = False

    def add(self, name, func, pattern):
        try:
            src, start = inspect.getsourcelines(func)
        except Exception:
            self.missing.append(name)
            return
        code = getattr(func, "__code__", None)
        for i, line in enumerate(src):
            if pattern in line:
                self.marks[name] = (code, start + i)
                self.hit[name] = 0
                return
        self.missing.append(name)

    def start(self):
        if not self.marks or not hasattr(sys, "monitoring"):
            return
        mon = sys.monitoring
        try:
            mon.use_tool_id(self.TOOL, "vf-reach")
        except ValueError:
            return
        bycode = {}
        for name, (code, ln) in self.marks.items():
            bycode.setdefault(code, {})[ln] = name

        def on_line(code, lineno):
            d = bycode.get(code)
            if d is not None:
                name = d.get(lineno)
                if name is not None:
                    self.hit[name] += 1
                    return None
            return mon.DISABLE

        mon.register_callback(self.TOOL, mon.events.LINE, on_line)
        for code in bycode:
            mon.set_local_events(self.TOOL, code, mon.events.LINE)
        self._on = True

    def stop(self):
        if self._on:
            mon = sys.monitoring
            for code, _ in self.marks.values():
                try:
                    mon.set_local_events(self.TOOL, code, 0)
                except Exception:
                    pass
            mon.register_callback(self.TOOL, mon.events.LINE, None)
            mon.free_tool_id(self.TOOL)
            self._on = False
