"""Harness-side instrumentation (nothing here edits the repository; active only inside check workers).

* shared-state guard: checksums of every class-level coefficient table / declared order / registry at worker
  start and end (a change means hidden state leaked between calls: reported as a violation of whatever
  property is running, clause `class_state_mutated`).
* Recorder helpers used by property modules: step-attempt log on an integrator instance, call counters,
  fault shims, sys.monitoring reach markers located by source pattern.
"""
import hashlib
import inspect
import sys

import numpy as np

_state = {"checksum0": None, "counters": {}, "violations": []}


def all_method_classes():
    import desolver.integrators as I
    out = []
    for c in list(I.explicit_methods()) + list(I.implicit_methods()):
        out.append(c)
    return out


def _checksum():
    import desolver.integrators as I
    h = hashlib.sha1()
    for c in all_method_classes():
        h.update(c.__name__.encode())
        h.update(np.asarray(c.tableau_intermediate).tobytes())
        tf = getattr(c, "tableau_final", None)
        if tf is not None:
            h.update(np.asarray(tf).tobytes())
        h.update(repr(c.__order__).encode())
        h.update(repr(c.symplectic).encode())
    h.update(repr(sorted(I.available_methods())).encode())
    return h.hexdigest()


class NoProgress(BaseException):
    """raised by the loop guard inside the offending repository function (logical budget, not wall clock)."""


class LoopGuard:
    """Logical-progress monitor: sys.monitoring JUMP events, enabled ONLY on the code objects of the integrators' `__call__`
    functions (their retry / step-doubling / step-halving loops), count backward jumps per activation. Those loops are bounded by
    design (retry cap 64; halving a float64 from 1 to the smallest subnormal takes 1074 iterations), so BUDGET backward jumps inside
    one activation means the loop is not going to end: NoProgress is raised inside the function, with the repository frame on the stack."""
    TOOL = 4
    BUDGET = 20000

    def __init__(self):
        self.codes = {}
        self.counts = {}
        self.activations = 0
        self.max_seen = 0
        self._on = False

    def start(self):
        if not hasattr(sys, "monitoring"):
            return
        import desolver.integrators as I
        from desolver.integrators import integrator_types as IT
        funcs = {}
        try:
            rc = I.generate_richardson_integrator(I.RK4Solver, richardson_iter=2)
            funcs["RichardsonExtrapolatedIntegrator.__call__"] = rc.__call__
            funcs["RichardsonExtrapolatedIntegrator.adaptive_richardson"] = rc.adaptive_richardson
        except Exception:
            pass
        for cname in ("RungeKuttaIntegrator", "ExplicitSymplecticIntegrator", "TableauIntegrator"):
            c = getattr(IT, cname, None)
            if c is not None and "__call__" in vars(c):
                funcs[cname + ".__call__"] = vars(c)["__call__"]
        mon = sys.monitoring
        try:
            mon.use_tool_id(self.TOOL, "vf-loopguard")
        except ValueError:
            return
        for name, f in funcs.items():
            code = getattr(f, "__code__", None)
            if code is not None:
                self.codes[code] = name
                self.counts[code] = 0
        counts, codes = self.counts, self.codes

        def on_start(code, offset):
            if code in counts:
                self.activations += 1
                counts[code] = 0

        def on_jump(code, src, dst):
            if dst < src and code in counts:
                counts[code] += 1
                if counts[code] > self.max_seen:
                    self.max_seen = counts[code]
                if counts[code] > self.BUDGET:
                    counts[code] = 0
                    raise NoProgress("%d backward jumps inside one activation of %s" % (self.BUDGET, codes[code]))

        mon.register_callback(self.TOOL, mon.events.PY_START, on_start)
        mon.register_callback(self.TOOL, mon.events.JUMP, on_jump)
        for code in self.codes:
            mon.set_local_events(self.TOOL, code, mon.events.PY_START | mon.events.JUMP)
        self._on = True

    def report(self):
        return {"loop_guard_activations": self.activations, "loop_guard_max_backward_jumps": self.max_seen, "loop_guard_functions": len(self.codes)}


_loop_guard = LoopGuard()


def install_global():
    _state["checksum0"] = _checksum()
    _loop_guard.start()


def global_report():
    viol = list(_state["violations"])
    c1 = _checksum()
    cnt = dict(_state["counters"])
    cnt["class_state_checksums"] = 1
    for k, v in _loop_guard.report().items():
        if k != "loop_guard_max_backward_jumps":
            cnt[k] = v
    _state["loop_guard_max"] = _loop_guard.max_seen
    if c1 != _state["checksum0"]:
        viol.append({"clause": "class_state_mutated", "mechanism": "tableau_or_registry_changed",
                     "features": {}, "detail": {"before": _state["checksum0"], "after": c1}})
    return {"counters": cnt, "violations": viol}


def bump(name, n=1):
    _state["counters"][name] = _state["counters"].get(name, 0) + n


# --------------------------------------------------------------------------------------------
class StepLog:
    """Wraps `integrator.step` on ONE instance: records every attempt (|h| requested, Newton flag)."""

    def __init__(self, integrator):
        self.attempts = []      # list of dicts per attempt
        self.calls = []         # per __call__: list of attempt indices
        self._intg = integrator
        orig = getattr(integrator, "step", None)
        log = self

        def step(rhs, initial_time, initial_state, constants, timestep):
            rec = {"h": float(np.asarray(timestep)), "t": float(np.asarray(initial_time)), "raised": None}
            log.attempts.append(rec)
            try:
                out = orig(rhs, initial_time, initial_state, constants, timestep)
            except BaseException as e:
                rec["raised"] = type(e).__name__
                raise
            sd = getattr(integrator, "solver_dict", None) or {}
            if "newton_iteration_success" in sd:
                rec["newton_ok"] = bool(sd["newton_iteration_success"])
            return out

        if hasattr(integrator, "adaptive_richardson"):
            orig_ar = integrator.adaptive_richardson

            def adaptive_richardson(rhs, t, y, constants, timestep):
                rec = {"h": float(np.asarray(timestep)), "t": float(np.asarray(t)), "raised": None, "richardson": True}
                log.attempts.append(rec)
                try:
                    return orig_ar(rhs, t, y, constants, timestep)
                except BaseException as e:
                    rec["raised"] = type(e).__name__
                    raise
            integrator.adaptive_richardson = adaptive_richardson
        else:
            integrator.step = step


# --------------------------------------------------------------------------------------------
class ReachMarkers:
    """sys.monitoring LINE markers located by *source pattern* inside given functions; DISABLE after first hit."""

    TOOL = 3

    def __init__(self):
        self.marks = {}    # name -> (code, lineno)
        self.hit = {}
        self.missing = []
        self._on = False

    def add(self, name, func, pattern):
        try:
            src, start = inspect.getsourcelines(func)
        except Exception:
            self.missing.append(name)
            return
        code = getattr(func, "__code__", None)
        for i, line in enumerate(src):
            if pattern in line:
                self.marks[name] = (code, start + i)
                self.hit[name] = 0
                return
        self.missing.append(name)

    def start(self):
        if not self.marks or not hasattr(sys, "monitoring"):
            return
        mon = sys.monitoring
        try:
            mon.use_tool_id(self.TOOL, "vf-reach")
        except ValueError:
            return
        bycode = {}
        for name, (code, ln) in self.marks.items():
            bycode.setdefault(code, {})[ln] = name

        def on_line(code, lineno):
            d = bycode.get(code)
            if d is not None:
                name = d.get(lineno)
                if name is not None:
                    self.hit[name] += 1
                    return None
            return mon.DISABLE

        mon.register_callback(self.TOOL, mon.events.LINE, on_line)
        for code in bycode:
            mon.set_local_events(self.TOOL, code, mon.events.LINE)
        self._on = True

    def stop(self):
        if self._on:
            mon = sys.monitoring
            for code, _ in self.marks.values():
                try:
                    mon.set_local_events(self.TOOL, code, 0)
                except Exception:
                    pass
            mon.register_callback(self.TOOL, mon.events.LINE, None)
            mon.free_tool_id(self.TOOL)
            self._on = False
