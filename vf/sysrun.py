"""Driving OdeSystem under observation: call wrapper with quiescent-point snapshots and the shared oracles
(C03 segment invariants, C06 dense-output structure) that several properties re-use."""
import numpy as np


class StepBudgetExceeded(Exception):
    """Raised from a harness callback when a run exceeds its logical step budget (bounded-progress restatement)."""


def budget_callback(max_steps):
    state = {"n": 0}

    def cb(system):
        state["n"] += 1
        if state["n"] > max_steps:
            raise StepBudgetExceeded("more than %d steps" % max_steps)
    cb.state = state
    return cb


def make_system(rhs, y0, t0, tf, dt, method, dense=False, rtol=None, atol=None, constants=None):
    import desolver as de
    kw = {}
    if constants is not None:
        kw["constants"] = constants
    s = de.OdeSystem(rhs, y0=y0, t=(t0, tf), dense_output=dense, dt=dt, rtol=rtol, atol=atol, **kw)
    import warnings
    with warnings.catch_warnings():
        warnings.simplefilter("ignore")
        s.method = method
    return s


def call_integrate(system, t=None, events=None, callback=None, max_steps=200000):
    """One integrate() call observed at its quiescent points. Returns a segment record."""
    n0 = len(system)
    t_before = np.array(system.t[-1], copy=True)
    y_before = np.array(system.y[-1], copy=True)
    cbs = []
    if callback is not None:
        cbs = list(callback) if isinstance(callback, (list, tuple)) else [callback]
    bud = budget_callback(max_steps)
    cbs.append(bud)
    seg = {"i0": n0 - 1, "t_before": t_before, "y_before": y_before, "target": t, "raised": None, "exc": None}
    try:
        system.integrate(t=t, events=events, callback=cbs)
    except BaseException as e:  # noqa - KeyboardInterrupt is one of the injected faults
        if type(e).__name__ in ("CaseTimeout", "NoProgress") or type(getattr(e, "__cause__", None)).__name__ in ("CaseTimeout", "NoProgress"):
            raise    # the per-case wall-clock watchdog (inconclusive, never a verdict) / the loop guard (decided by the worker)
        seg["raised"] = type(e).__name__
        seg["exc"] = e
    seg["i1"] = len(system) - 1
    seg["steps_cb"] = bud.state["n"]
    return seg


def eps_of(dtype):
    return float(np.finfo(dtype).eps)


def segment_invariants(rec, system, seg, tf, feats, y0_copy=None, require_reach=True, K=64, clock=False, clause_prefix="", step_tol=0.0):
    """C03 oracle on the rows recorded by ONE integrate call (rows i0..i1)."""
    cp = clause_prefix
    t = np.asarray(system.t)
    y = np.asarray(system.y)
    i0, i1 = seg["i0"], seg["i1"]
    dt_ = y.dtype
    eps = eps_of(dt_)
    ok = True

    def bad(clause, mech, **d):
        nonlocal ok
        ok = False
        rec.violate(cp + clause, mech, feats, **d)

    if len(t) != len(y) or len(t) != len(system):
        bad("lengths", "t_y_len_mismatch", lens=[len(t), len(y), len(system)])
        return False
    if t.dtype != dt_:
        bad("precision", "time_dtype_differs_from_state_dtype", t=str(t.dtype), y=str(dt_))
    if y0_copy is not None:
        if y.dtype != y0_copy.dtype:
            bad("precision", "state_dtype_differs_from_initial_state", y=str(y.dtype), y0=str(y0_copy.dtype))
        if not np.array_equal(y[0], y0_copy):
            bad("first_state", "first_row_not_initial_condition", got=y[0], want=y0_copy)
    if not (np.all(np.isfinite(t)) and np.all(np.isfinite(y))):
        bad("finite", "non_finite_value_stored")
        return False
    if float(t[i0]) != float(seg["t_before"]) or not np.array_equal(y[i0], seg["y_before"]):
        bad("segment_start", "start_row_changed_by_call")
    segt = t[i0:i1 + 1].astype(np.longdouble)
    tfl = np.longdouble(tf)
    d = float(np.sign(tfl - segt[0]))
    scale = max(1.0, abs(float(tf)), abs(float(segt[0])))
    tol = K * eps * scale
    if len(segt) > 1:
        diffs = np.diff(segt)
        if not np.all(np.sign(diffs) == d):
            j = int(np.nonzero(np.sign(diffs) != d)[0][0])
            bad("monotone", "time_not_strictly_monotone_toward_target", at=i0 + j, t_pair=[float(segt[j]), float(segt[j + 1])], direction=d)
        over = d * (segt - tfl)
        if float(np.max(over)) > tol:
            j = int(np.argmax(over))
            bad("overshoot", "recorded_time_beyond_target", at=i0 + j, t=float(segt[j]), tf=float(tf), excess=float(over[j]))
    if require_reach:
        if abs(float(segt[-1] - tfl)) > tol:
            bad("reach", "last_time_not_at_target", last=float(segt[-1]), tf=float(tf), tol=tol, rows=len(segt))
    if clock and len(segt) > 1:
        yc = y[i0:i1 + 1, -1].astype(np.longdouble)
        dev = np.abs((yc - yc[0]) - (segt - segt[0]))
        # class tableaus are float64: sum(b) = 1 only to float64 rounding even in longdouble runs; implicit
        # methods integrate y_c' = 1 to their nonlinear-solver tolerance (step_tol) per step
        eps_c = max(eps, 2.3e-16)
        unit = (K * eps_c * max(1.0, float(np.max(np.abs(segt))), float(np.max(np.abs(yc)))) + 4 * step_tol) * (np.arange(len(segt)) + 1)
        r = dev / unit
        rec.worst("clock_pairing_over_unit", float(np.max(r)))
        if float(np.max(r)) > 1:
            j = int(np.argmax(r))
            bad("pairing", "clock_component_disagrees_with_time", at=i0 + j, dev=float(dev[j]), unit=float(unit[j]))
    return ok


def dense_structure(rec, system, feats, expect_times=None, K=64, clause_prefix="", substeps=False, time_eps=None):
    """C06 structural invariant of the live DenseOutput at a quiescent point."""
    cp = clause_prefix
    sol = system.sol
    if sol is None:
        return True
    ok = True

    def bad(clause, mech, **d):
        nonlocal ok
        ok = False
        rec.violate(cp + clause, mech, feats, **d)

    te = sol.t_eval
    pieces = sol.y_interpolants
    if te is None:
        if expect_times is not None and len(expect_times) > 0:
            bad("dense_cover", "no_pieces_but_steps_recorded", nsteps=len(expect_times))
        return ok
    tev = np.array([float(x) for x in te])
    if len(tev) != len(pieces):
        bad("dense_lengths", "t_eval_len_differs_from_pieces", lens=[len(tev), len(pieces)])
        return ok
    if len(tev) > 1 and not np.all(np.diff(tev) > 0):
        j = int(np.nonzero(np.diff(tev) <= 0)[0][0])
        bad("dense_sorted", "t_eval_not_strictly_increasing", at=j, pair=[tev[j], tev[j + 1]])
    for i, p in enumerate(pieces):
        a, b = float(p.t0), float(p.t1)
        if tev[i] != a and tev[i] != b:
            bad("dense_alignment", "t_eval_entry_not_an_endpoint_of_its_piece", at=i, t_eval=tev[i], piece=[a, b])
            break
    lo = [min(float(p.t0), float(p.t1)) for p in pieces]
    hi = [max(float(p.t0), float(p.t1)) for p in pieces]
    ttol = 0.0
    if substeps:   # Richardson wrappers: pieces come from sub-steps whose end points are re-accumulated (rounding)
        ttol = 16 * 2.3e-16 * max([1.0] + [abs(x) for x in lo + hi])
    if time_eps:   # low-precision runs: implicit methods carry float64 increments, end points agree with recorded times to rounding only
        ttol = max(ttol, 16 * time_eps * max([1.0] + [abs(x) for x in lo + hi]))
        substeps = True
    for i in range(len(pieces) - 1):
        if abs(hi[i] - lo[i + 1]) > ttol:
            bad("dense_contiguous", "consecutive_pieces_do_not_share_an_endpoint", at=i, a=[lo[i], hi[i]], b=[lo[i + 1], hi[i + 1]])
            break
    if expect_times is not None:
        ends = set()
        for p in pieces:
            ends.add(float(p.t0))
            ends.add(float(p.t1))
        want = set(float(x) for x in expect_times)
        if substeps:
            arr = np.array(sorted(ends)) if ends else np.zeros(0)
            missing = [w for w in sorted(want) if not len(arr) or float(np.min(np.abs(arr - w))) > ttol]
            if missing:
                bad("dense_cover", "recorded_times_not_among_piece_endpoints", missing=missing[:4], n_pieces=len(pieces), n_times=len(want))
            if ends and want and (min(ends) < min(want) - ttol or max(ends) > max(want) + ttol):
                bad("dense_cover", "pieces_extend_beyond_recorded_range", ends=[min(ends), max(ends)], recorded=[min(want), max(want)])
        elif ends != want:
            extra = sorted(ends - want)[:4]
            missing = sorted(want - ends)[:4]
            bad("dense_cover", "piece_endpoints_differ_from_recorded_times", extra=extra, missing=missing, n_pieces=len(pieces), n_times=len(want))
    return ok


def closing_rejection_target(make, max_steps=60000):
    """Reference run of `make()` (a fresh system over the whole span): returns a target time such that a call to it meets a proposed
    step > remaining span > acceptable step, i.e. the closing (clipped) step of the call is rejected and retried; None if no step of
    the reference run was rejected."""
    from vf.instrument import StepLog
    ref = make()
    rlog = StepLog(ref.integrator)
    seg = call_integrate(ref, max_steps=max_steps, callback=lambda s_: rlog.attempts.append({"boundary": 1}))
    closing_rejection_target.last_reference = (ref, seg)      # the caller may apply its oracle to the reference run as well
    groups, cur = [], []
    for a in rlog.attempts:
        if "boundary" in a:
            groups.append(cur)
            cur = []
        else:
            cur.append(a)
    cands = [g for k, g in enumerate(groups) if 2 <= k < len(groups) - 1 and len(g) >= 2 and abs(g[-1]["h"]) < abs(g[0]["h"])]
    if not cands:
        return None
    g = cands[len(cands) // 2]
    return float(g[0]["t"] + 0.5 * (g[0]["h"] + g[-1]["h"]))


def replay_steps(rec, info, f, t, y, rows, feats, rtol, atol, lipschitz, constants=None, clause="step_replay", mask=None):
    """History-independence of the recorded steps: row k+1 must be what a FRESH integrator of the same class produces from row k with the
    recorded step (explicit/splitting: to rounding; implicit: to the stage-solve tolerance).  Catches state carried into a step that does
    not start where the previous call ended (roll-back at a terminal event, resume after a failure, reversal)."""
    import desolver as de
    from vf import util
    dt_ = y.dtype
    eps = max(eps_of(dt_), 2.3e-16)
    rhs = de.DiffRHS(f)
    bad = 0
    for k in rows:
        if k < 0 or k + 1 >= len(t):
            continue
        h = t[k + 1] - t[k]
        kw = {}
        if mask is not None and info["splitting"]:
            kw["staggered_mask"] = mask
        intg = info["cls"](np.shape(y[k]), dtype=dt_, rtol=rtol, atol=atol, **kw)
        util.passthrough_adaptation(intg)
        try:
            _, (dT, dY) = intg(rhs, np.array(t[k], copy=True), np.array(y[k], copy=True), dict(constants or {}), np.array(h, copy=True))
        except Exception as e:   # the reference step itself is not available (Newton failure at this step size): nothing to compare
            rec.bump(clause + "_reference_unavailable")
            continue
        if abs(float(dT) - float(h)) > 64 * eps * max(1.0, abs(float(h))):
            rec.bump(clause + "_reference_took_other_step")
            continue
        rec.bump(clause + "_steps")
        ymax = float(np.max(np.abs(y[k])))
        if info["explicit"]:
            unit = 256 * eps * info["stages"] * (1 + ymax) * (1 + lipschitz * abs(float(h))) ** 2
        else:
            unit = 40 * (atol + rtol * ymax) + 256 * eps * (1 + ymax)
        # the step actually taken is known from the recorded times only to an ulp of t: that much of the local slope is not a difference of the steps
        slope = float(np.max(np.abs(np.asarray(dY, dtype=np.float64)))) / max(abs(float(h)), 1e-300)
        unit = unit + 4 * eps * max(abs(float(t[k])), abs(float(t[k + 1]))) * slope
        err = float(np.max(np.abs((np.asarray(y[k], dtype=np.longdouble) + np.asarray(dY, dtype=np.longdouble)) - np.asarray(y[k + 1], dtype=np.longdouble))))
        rec.worst(clause + "_over_unit", err / unit)
        if err > unit and bad < 2:
            bad += 1
            rec.violate(clause, "recorded_step_differs_from_fresh_integrator_step", feats, row=int(k), t=float(t[k]), h=float(h), err=err, unit=unit)
