"""Problem library with independent exact solutions (DESIGN.md section 3.1)."""
from fractions import Fraction

import numpy as np


def rng_for(*coords):
    return np.random.default_rng(np.random.SeedSequence([int(c) & 0x7FFFFFFF for c in coords]))


# ---------------------------------------------------------------------------------------------
# exact polynomial arithmetic in s = t - t0 (lists of Fractions, lowest degree first)
# ---------------------------------------------------------------------------------------------
def p_add(a, b):
    n = max(len(a), len(b))
    return [(a[i] if i < len(a) else 0) + (b[i] if i < len(b) else 0) for i in range(n)]


def p_mul(a, b):
    if not a or not b:
        return []
    out = [Fraction(0)] * (len(a) + len(b) - 1)
    for i, x in enumerate(a):
        if x == 0:
            continue
        for j, y in enumerate(b):
            out[i + j] += x * y
    return out


def p_pow(a, k):
    out = [Fraction(1)]
    for _ in range(k):
        out = p_mul(out, a)
    return out


def p_int(a):
    return [Fraction(0)] + [c / (i + 1) for i, c in enumerate(a)]


def p_eval(a, s):
    acc = Fraction(0)
    for c in reversed(a):
        acc = acc * s + c
    return acc


class GradedPoly:
    """Graded (weighted-triangular) polynomial system.

    Variable i has weight w_i in 1..g; t has weight 1; f_i is a polynomial in t and variables of weight < w_i
    whose monomials have total weight <= w_i - 1.  Then every elementary differential of order > g vanishes
    identically: the exact solution is a polynomial of degree <= g in t and any Runge-Kutta (or splitting)
    method of order >= g reproduces it to rounding for EVERY step size.

    separable=True: the first half of the variables are drift variables (their equations involve kick variables
    only, no t) and the second half kick variables (equations in drift variables and t), matching the default
    kick mask of the splitting integrators.  linear=True restricts to linear couplings (quadratic Hamiltonian
    sub-class for the 'harmonic order' of the near-integrable splitting schemes).
    """

    def __init__(self, grade, seed, nper=1, separable=False, linear=False, autonomous=False):
        self.grade = int(grade)
        self.seed = int(seed)
        rng = rng_for(7001, grade, seed, nper, int(separable), int(linear))
        self.separable = separable
        g = self.grade
        if separable:
            n = g * nper
            self.weights = [w for w in range(1, g + 1) for _ in range(nper)] * 2
            self.kind = ["q"] * n + ["p"] * n
        else:
            self.weights = [w for w in range(1, g + 1) for _ in range(nper)]
            self.kind = ["x"] * len(self.weights)
        self.dim = len(self.weights)
        dy = [Fraction(int(k), 4) for k in rng.integers(-4, 5, size=self.dim)]
        self.y0 = dy
        self.t0 = Fraction(int(rng.integers(-6, 7)), 4)
        for _attempt in range(20):
            self.terms = []
            for i in range(self.dim):
                self.terms.append(self._merge(self._make_terms(i, rng, linear, autonomous)))
            self._polys = None
            if self.has_top_weight():     # the solution really has a t^grade term (random coefficients may cancel)
                break

    @staticmethod
    def _merge(terms):
        acc = {}
        for (c, pt, vs) in terms:
            acc[(pt, vs)] = acc.get((pt, vs), 0) + c
        return [(c, pt, vs) for (pt, vs), c in acc.items() if c != 0] or [(Fraction(0), 0, ())]

    def _coef(self, rng):
        k = int(rng.integers(1, 9)) * (1 if rng.random() < 0.5 else -1)
        return Fraction(k, 4)

    def _allowed(self, i):
        w = self.weights[i]
        if not self.separable:
            return [j for j in range(self.dim) if self.weights[j] < w], True
        if self.kind[i] == "q":
            return [j for j in range(self.dim) if self.kind[j] == "p" and self.weights[j] < w], False
        return [j for j in range(self.dim) if self.kind[j] == "q" and self.weights[j] < w], True

    def _make_terms(self, i, rng, linear, autonomous):
        w = self.weights[i]
        allowed, t_ok = self._allowed(i)
        t_ok = t_ok and not autonomous and not linear
        terms = []
        budget = w - 1
        if budget == 0:
            return [(self._coef(rng), 0, ())]
        # chain term: guarantees a top-weight contribution
        top = [j for j in allowed if self.weights[j] == budget]
        if top:
            j = top[int(rng.integers(len(top)))]
            terms.append((self._coef(rng), 0, ((j, 1),)))
        elif t_ok:
            terms.append((self._coef(rng), budget, ()))
        nextra = int(rng.integers(1, 4))
        for _ in range(nextra):
            # random monomial of total weight <= budget
            rem = budget if rng.random() < 0.7 else int(rng.integers(0, budget + 1))
            vars_ = {}
            pt = 0
            guard = 0
            while rem > 0 and guard < 20:
                guard += 1
                cands = [j for j in allowed if self.weights[j] <= rem]
                if linear:
                    cands = [] if vars_ else cands
                pick_t = t_ok and (not cands or rng.random() < 0.3) and not (linear and vars_)
                if pick_t:
                    pt += 1
                    rem -= 1
                elif cands:
                    j = cands[int(rng.integers(len(cands)))]
                    vars_[j] = vars_.get(j, 0) + 1
                    rem -= self.weights[j]
                    if linear:
                        break
                else:
                    break
            terms.append((self._coef(rng), pt, tuple(sorted(vars_.items()))))
        return terms

    # numeric right-hand side (dtype follows y)
    def rhs(self, t, y, **kw):
        y = np.asarray(y)
        out = np.zeros_like(y)
        yf = y.reshape(-1)
        of = out.reshape(-1)
        for i, terms in enumerate(self.terms):
            acc = yf.dtype.type(0)
            for (c, pt, vs) in terms:
                m = yf.dtype.type(c.numerator) / yf.dtype.type(c.denominator)
                if pt:
                    m = m * t ** pt
                for (j, k) in vs:
                    m = m * yf[j] ** k
                acc = acc + m
            of[i] = acc
        return out

    def exact_polys(self):
        """y_i(t0 + s) as exact polynomials in s."""
        if getattr(self, "_polys", None) is not None:
            return self._polys
        tpoly = [self.t0, Fraction(1)]
        polys = [None] * self.dim
        order = sorted(range(self.dim), key=lambda i: self.weights[i])
        for i in order:
            f = []
            for (c, pt, vs) in self.terms[i]:
                m = [c]
                if pt:
                    m = p_mul(m, p_pow(tpoly, pt))
                for (j, k) in vs:
                    m = p_mul(m, p_pow(polys[j], k))
                f = p_add(f, m)
            polys[i] = p_add([self.y0[i]], p_int(f))
        self._polys = polys
        return polys

    def exact(self, s):
        s = Fraction(s)
        return [p_eval(p, s) for p in self.exact_polys()]

    def has_top_weight(self):
        polys = self.exact_polys()
        g = self.grade
        return any(len(p) > g and p[g] != 0 for p in polys)


# ---------------------------------------------------------------------------------------------
class Manufactured:
    """f(t,y) = y*'(t) + G(t,y) - G(t,y*(t)),  y*(t) closed form, G(t,y) = A y + eps*tanh(B y)*(1+0.3 sin t).

    A = -direction*D + S (D>0 diagonal, S skew) so that the problem is contractive *along the direction of
    integration*: the problem's own error amplification is <= ~1 and a tolerance-proportional global error is
    the expected behaviour in either direction.
    """

    def __init__(self, dim, seed, direction=1, damping=(0.3, 2.0), nonlin=0.3, freq=(0.5, 3.0), shape=None):
        rng = rng_for(7002, dim, seed, 1 if direction >= 0 else 2)
        self.dim = dim
        self.shape = tuple(shape) if shape is not None else (dim,)
        self.a = rng.uniform(-1.0, 1.0, dim)
        self.b = rng.uniform(0.3, 1.2, dim)
        self.w = rng.uniform(freq[0], freq[1], dim)
        self.ph = rng.uniform(0, 2 * np.pi, dim)
        self.c = rng.uniform(-0.5, 0.5, dim)
        self.v = rng.uniform(freq[0], freq[1], dim)
        D = np.diag(rng.uniform(damping[0], damping[1], dim))
        S = rng.uniform(-1.0, 1.0, (dim, dim))
        S = 0.5 * (S - S.T)
        self.A = -float(np.sign(direction) or 1.0) * D + S
        self.B = rng.uniform(-1.0, 1.0, (dim, dim))
        self.eps = nonlin * float(np.sign(direction) or 1.0) * -1.0
        self._cache = {}

    def _p(self, dtype):
        d = np.dtype(dtype)
        if d not in self._cache:
            self._cache[d] = {k: np.asarray(getattr(self, k), dtype=d) for k in ("a", "b", "w", "ph", "c", "v", "A", "B")}
        return self._cache[d]

    def ystar(self, t, dtype=np.longdouble):
        p = self._p(dtype)
        t = np.asarray(t, dtype=dtype)
        return (p["a"] + p["b"] * np.sin(p["w"] * t + p["ph"]) + p["c"] * np.cos(p["v"] * t)).reshape(self.shape)

    def dystar(self, t, dtype=np.longdouble):
        p = self._p(dtype)
        t = np.asarray(t, dtype=dtype)
        return (p["b"] * p["w"] * np.cos(p["w"] * t + p["ph"]) - p["c"] * p["v"] * np.sin(p["v"] * t)).reshape(self.shape)

    def d4ystar_max(self):
        return float(np.max(np.abs(self.b) * self.w ** 4 + np.abs(self.c) * self.v ** 4))

    def G(self, t, yflat, p):
        return p["A"] @ yflat + yflat.dtype.type(self.eps) * np.tanh(p["B"] @ yflat) * (1 + yflat.dtype.type(0.3) * np.sin(t))

    def rhs(self, t, y, **kw):
        y = np.asarray(y)
        dt = y.dtype
        p = self._p(dt)
        t = np.asarray(t, dtype=dt)
        ys = (p["a"] + p["b"] * np.sin(p["w"] * t + p["ph"]) + p["c"] * np.cos(p["v"] * t))
        dys = (p["b"] * p["w"] * np.cos(p["w"] * t + p["ph"]) - p["c"] * p["v"] * np.sin(p["v"] * t))
        yf = y.reshape(-1)
        out = dys + self.G(t, yf, p) - self.G(t, ys, p)
        return out.reshape(y.shape)

    def jac(self, t, y, **kw):
        y = np.asarray(y)
        p = self._p(y.dtype)
        yf = y.reshape(-1)
        th = np.tanh(p["B"] @ yf)
        J = p["A"] + y.dtype.type(self.eps) * (1 + y.dtype.type(0.3) * np.sin(t)) * ((1 - th ** 2)[:, None] * p["B"])
        return J.reshape(y.shape + y.shape)

    def lipschitz(self):
        return float(np.linalg.norm(self.A, 2) + abs(self.eps) * 1.3 * np.linalg.norm(self.B, 2))


class Scaled:
    """u = S*y for a manufactured problem: same dynamics, solution magnitude S (makes atol and rtol*|y| distinguishable)."""

    def __init__(self, base, S):
        self.base, self.S = base, float(S)
        self.dim, self.shape, self.A = base.dim, base.shape, base.A

    def rhs(self, t, u, **kw):
        u = np.asarray(u)
        return u.dtype.type(self.S) * self.base.rhs(t, u / u.dtype.type(self.S))

    def jac(self, t, u, **kw):
        u = np.asarray(u)
        return self.base.jac(t, u / u.dtype.type(self.S))

    def ystar(self, t, dtype=np.longdouble):
        return self.S * self.base.ystar(t, dtype=dtype)

    def dystar(self, t, dtype=np.longdouble):
        return self.S * self.base.dystar(t, dtype=dtype)

    def lipschitz(self):
        return self.base.lipschitz()

    def d4ystar_max(self):
        return self.S * self.base.d4ystar_max()


class LateBump:
    """adds a pure-quadrature component u_b' = a*exp(-((t-tc)/w)^2): quiet for most of the span, a sharp feature near the end
    (the closing step of a run gets rejected and retried); exact through erf."""

    def __init__(self, base, t0, tf, amp=3.0, where=1.0, width=0.04):
        self.base = base
        self.t0, self.tf = float(t0), float(tf)
        self.tc = self.t0 + where * (self.tf - self.t0)
        self.w = width * abs(self.tf - self.t0)
        self.amp = amp
        self.dim = base.dim + 1
        self.shape = (self.dim,)
        self.A = base.A

    def rhs(self, t, u, **kw):
        u = np.asarray(u)
        out = np.empty_like(u)
        out[:-1] = self.base.rhs(t, u[:-1])
        out[-1] = u.dtype.type(self.amp) * np.exp(-((np.asarray(t, dtype=u.dtype) - u.dtype.type(self.tc)) / u.dtype.type(self.w)) ** 2)
        return out

    def jac(self, t, u, **kw):
        u = np.asarray(u)
        J = np.zeros((self.dim, self.dim), dtype=u.dtype)
        J[:-1, :-1] = self.base.jac(t, u[:-1])
        return J

    def _bump(self, t):
        from scipy.special import erf
        return self.amp * self.w * np.sqrt(np.pi) / 2.0 * (erf((float(t) - self.tc) / self.w) - erf((self.t0 - self.tc) / self.w))

    def ystar(self, t, dtype=np.longdouble):
        out = np.empty(self.dim, dtype=dtype)
        out[:-1] = self.base.ystar(t, dtype=dtype)
        out[-1] = 1.0 + self._bump(t)
        return out

    def lipschitz(self):
        return self.base.lipschitz()


class QuietBump:
    """pure quadrature y_i' = a_i*exp(-((t-tc_i)/w_i)^2): the right-hand side is ~0 until shortly before the end of the span, so the
    controller grows the step until the CLOSING step (clipped to the remaining span) runs into the feature and is rejected."""

    def __init__(self, dim, seed, t0, tf):
        rng = rng_for(7004, dim, seed)
        self.dim, self.shape = dim, (dim,)
        self.t0, self.tf = float(t0), float(tf)
        L = self.tf - self.t0
        self.tc = self.t0 + rng.uniform(1.0, 1.03, dim) * L
        self.w = rng.uniform(0.01, 0.02, dim) * abs(L)
        self.a = rng.uniform(0.5, 2.0, dim) * rng.choice([-1, 1], dim)
        self.A = np.zeros((dim, dim))

    def rhs(self, t, y, **kw):
        y = np.asarray(y)
        t = np.asarray(t, dtype=y.dtype)
        return (self.a.astype(y.dtype) * np.exp(-((t - self.tc.astype(y.dtype)) / self.w.astype(y.dtype)) ** 2)).reshape(y.shape)

    def jac(self, t, y, **kw):
        return np.zeros((self.dim, self.dim), dtype=np.asarray(y).dtype)

    def ystar(self, t, dtype=np.longdouble):
        from scipy.special import erf
        v = 1.0 + self.a * self.w * np.sqrt(np.pi) / 2.0 * (erf((float(t) - self.tc) / self.w) - erf((self.t0 - self.tc) / self.w))
        return np.asarray(v, dtype=dtype)

    def lipschitz(self):
        return 0.0


class Clocked:
    """Wraps a problem with an extra last component y_c' = 1 (time/state pairing made unambiguous)."""

    def __init__(self, base):
        self.base = base
        self.dim = base.dim + 1
        self.shape = (self.dim,)

    def rhs(self, t, y, **kw):
        out = np.empty_like(y)
        out[:-1] = self.base.rhs(t, y[:-1])
        out[-1] = 1
        return out

    def y0(self, t0, dtype):
        out = np.empty(self.dim, dtype=dtype)
        out[:-1] = self.base.ystar(t0, dtype=np.longdouble).astype(dtype)
        out[-1] = 0
        return out

    def ystar(self, t, t0, dtype=np.longdouble):
        out = np.empty(self.dim, dtype=dtype)
        out[:-1] = self.base.ystar(t, dtype=dtype)
        out[-1] = np.asarray(t, dtype=dtype) - np.asarray(t0, dtype=dtype)
        return out


# ---------------------------------------------------------------------------------------------
class Hamiltonian:
    """Separable Hamiltonians H = T(p) + V(q) with canonical layout helpers."""

    KINDS = ["harmonic", "coupled_quadratic", "pendulum", "duffing", "henon_heiles", "quartic_chain"]

    def __init__(self, kind, seed, ndof=None):
        rng = rng_for(7003, self.KINDS.index(kind), seed)
        self.kind = kind
        if kind in ("harmonic", "pendulum", "duffing"):
            nd = 1
        elif kind == "henon_heiles":
            nd = 2
        else:
            nd = ndof or int(rng.integers(2, 4))
        self.nd = nd
        self.m = rng.uniform(0.5, 2.0, nd)
        K = rng.uniform(-0.5, 0.5, (nd, nd))
        self.K = K @ K.T + np.diag(rng.uniform(0.5, 2.0, nd))
        self.k4 = rng.uniform(0.2, 1.0, nd)
        self.quadratic = kind in ("harmonic", "coupled_quadratic")

    def gradV(self, q):
        k = self.kind
        dt = q.dtype
        if k in ("harmonic", "coupled_quadratic"):
            return np.asarray(self.K, dtype=dt) @ q
        if k == "pendulum":
            return np.sin(q) * dt.type(self.K[0, 0])
        if k == "duffing":
            return dt.type(self.K[0, 0]) * q + dt.type(self.k4[0]) * q ** 3
        if k == "henon_heiles":
            x, y = q[0], q[1]
            return np.array([x + 2 * x * y, y + x * x - y * y], dtype=dt)
        if k == "quartic_chain":
            return np.asarray(self.K, dtype=dt) @ q + np.asarray(self.k4, dtype=dt) * q ** 3
        raise ValueError(k)

    def V(self, q):
        k = self.kind
        if k in ("harmonic", "coupled_quadratic"):
            return 0.5 * q @ (np.asarray(self.K, dtype=q.dtype) @ q)
        if k == "pendulum":
            return -np.cos(q[0]) * self.K[0, 0]
        if k == "duffing":
            return 0.5 * self.K[0, 0] * q[0] ** 2 + 0.25 * self.k4[0] * q[0] ** 4
        if k == "henon_heiles":
            x, y = q[0], q[1]
            return 0.5 * (x * x + y * y) + x * x * y - y ** 3 / 3
        if k == "quartic_chain":
            return 0.5 * q @ (np.asarray(self.K, dtype=q.dtype) @ q) + 0.25 * np.sum(np.asarray(self.k4, dtype=q.dtype) * q ** 4)
        raise ValueError(k)

    def H(self, q, p):
        return 0.5 * np.sum(p * p / np.asarray(self.m, dtype=p.dtype)) + self.V(q)

    def layout(self, name):
        """index arrays (iq, ip) of positions/momenta inside the state vector, and the boolean kick mask."""
        nd = self.nd
        if name == "qp":
            iq, ip = np.arange(nd), np.arange(nd, 2 * nd)
        elif name == "pq":
            ip, iq = np.arange(nd), np.arange(nd, 2 * nd)
        elif name == "interleaved":
            iq, ip = np.arange(0, 2 * nd, 2), np.arange(1, 2 * nd, 2)
        else:
            raise ValueError(name)
        mask = np.zeros(2 * nd, dtype=bool)
        mask[ip] = True
        return iq, ip, mask

    def make_rhs(self, layout):
        iq, ip, mask = self.layout(layout)

        def rhs(t, y, **kw):
            out = np.empty_like(y)
            out[iq] = y[ip] / np.asarray(self.m, dtype=y.dtype)
            out[ip] = -self.gradV(y[iq])
            return out
        return rhs

    def J(self, layout):
        iq, ip, mask = self.layout(layout)
        n = 2 * self.nd
        J = np.zeros((n, n))
        for a, b in zip(iq, ip):
            J[a, b] = 1.0
            J[b, a] = -1.0
        return J


# ---------------------------------------------------------------------------------------------
def dtype_of(name):
    return {"float32": np.dtype("float32"), "float64": np.dtype("float64"), "longdouble": np.dtype(np.longdouble)}[name]


def eps_of(name):
    return float(np.finfo(dtype_of(name)).eps)



class TimeScaled:
    """y(t) = base.y(t / tau): the same trajectory on a time axis compressed (tau << 1) or stretched (tau >> 1) by tau."""

    def __init__(self, base, tau):
        self.base, self.tau = base, float(tau)
        self.dim, self.shape = base.dim, base.shape
        self.a = base.a
        self.w = base.w / self.tau
        self.v = base.v / self.tau

    def rhs(self, t, y, **kw):
        y = np.asarray(y)
        return self.base.rhs(np.asarray(t, dtype=y.dtype) / y.dtype.type(self.tau), y) / y.dtype.type(self.tau)

    def ystar(self, t, dtype=np.longdouble):
        return self.base.ystar(np.asarray(t, dtype=dtype) / np.dtype(dtype).type(self.tau), dtype=dtype)

    def dystar(self, t, dtype=np.longdouble):
        return self.base.dystar(np.asarray(t, dtype=dtype) / np.dtype(dtype).type(self.tau), dtype=dtype) / np.dtype(dtype).type(self.tau)

    def d4ystar_max(self):
        return self.base.d4ystar_max() / self.tau ** 4

    def lipschitz(self):
        return self.base.lipschitz() / self.tau
