"""Event-function families g = s*(h(t,y[,dy]) - c) built from JSON specs, the in-situ event-detection trace,
and the true-root oracle along an exact trajectory."""
import numpy as np

KINDS = ["component", "linear", "time", "norm2", "dstate", "steep"]


class Ev:
    """callable event with scipy-style attributes; `spec` is JSON data."""

    def __init__(self, spec, dim):
        self.spec = spec
        self.kind = spec["kind"]
        self.s = float(spec["scale"])
        self.c = float(spec["c"])
        self.w = np.asarray(spec.get("w", [1.0] + [0.0] * (dim - 1)), dtype=np.float64)
        self.direction = int(spec.get("direction", 0))
        self.is_terminal = bool(spec.get("terminal", False))
        if self.kind == "dstate":
            self.requires_dstate = True
        self.ncalls = 0
        self.fault_at = None

    def h(self, t, y, dy=None):
        k = self.kind
        if k == "component":
            return y[self.spec["i"]]
        if k == "linear":
            return np.dot(self.w.astype(y.dtype), y)
        if k == "time":
            return t
        if k == "norm2":
            return np.dot(y, y)
        if k == "dstate":
            return np.dot(self.w.astype(y.dtype), dy)
        if k == "steep":
            return np.tanh(50.0 * (y[self.spec["i"]] - self.c)) + self.c
        if k == "tsin":      # periodic in time: the SAME function crosses again and again, omega*(t - tref) formed in the time's own precision
            return np.sin(self.spec["omega"] * (t - self.spec["tref"]))
        raise ValueError(k)

    def __call__(self, t, y, *a, **kw):
        self.ncalls += 1
        if self.fault_at is not None and self.ncalls == self.fault_at:
            self.fault_at = None
            raise self.fault_exc
        dy = a[0] if a else None
        return self.s * (self.h(t, y, dy) - self.c)

    def value(self, t, y, f):
        """g at a recorded row (uses the rhs for derivative-dependent events)."""
        dy = f(t, y) if self.kind == "dstate" else None
        return float(self.s * (self.h(np.asarray(t), np.asarray(y), dy) - self.c))

    def gscale(self, ymax):
        k = self.kind
        if k == "norm2":
            hs = ymax ** 2
        elif k == "tsin":
            hs = 1.0
        elif k == "time":
            hs = ymax   # caller passes max|t| for time events
        else:
            hs = float(np.sum(np.abs(self.w))) * ymax if k in ("linear", "dstate") else ymax
        return abs(self.s) * (hs + abs(self.c) + 1e-300)


def random_event_spec(rng, prob, t0, tf, dim, terminal=False, kinds=None, scale_decades=(-6, 6), tm=None):
    kind = str(rng.choice(kinds or KINDS))
    sc = float(10 ** rng.uniform(*scale_decades)) * float(rng.choice([-1, 1]))
    spec = {"kind": kind, "scale": sc, "direction": int(rng.choice([-1, 0, 0, 1])), "terminal": bool(terminal)}
    if tm is None:
        tm = t0 + float(rng.uniform(0.15, 0.9)) * (tf - t0)
    ys = np.asarray(prob.ystar(tm), dtype=np.float64)
    if kind in ("component", "steep"):
        i = int(rng.integers(dim))
        spec["i"] = i
        spec["c"] = float(ys[i])
    elif kind == "linear":
        w = rng.uniform(-1, 1, dim)
        spec["w"] = [float(x) for x in w]
        spec["c"] = float(np.dot(w, ys))
    elif kind == "time":
        spec["c"] = float(tm)
    elif kind == "norm2":
        spec["c"] = float(np.dot(ys, ys))
    elif kind == "dstate":
        w = rng.uniform(-1, 1, dim)
        spec["w"] = [float(x) for x in w]
        spec["c"] = float(np.dot(w, np.asarray(prob.dystar(tm), dtype=np.float64)))
    return spec


class DetectionTrace:
    """Wraps desolver.differential_system.root_finder and handle_events (module attributes looked up at call
    time by the production code): records, per processed step, bracket, end signs, returned (root, success),
    the events declared active, and sol(root) evaluated on the SAME DenseOutput right after detection."""

    def __init__(self):
        import desolver.differential_system as ds
        self.ds = ds
        self.steps = []
        self._orig_rf = ds.root_finder
        self._orig_he = ds.handle_events
        trace = self

        def root_finder(f, bounds, *a, **kw):
            out = trace._orig_rf(f, bounds, *a, **kw)
            cur = {"bracket": [float(np.asarray(bounds[0])), float(np.asarray(bounds[1]))]}
            try:
                cur["fa"] = [float(np.asarray(fi(bounds[0]))) for fi in f]
                cur["fb"] = [float(np.asarray(fi(bounds[1]))) for fi in f]
            except Exception:
                cur["fa"] = cur["fb"] = None
            cur["roots"] = [float(x) for x in np.asarray(out[0]).reshape(-1)]
            cur["success"] = [bool(x) for x in np.asarray(out[1]).reshape(-1)]
            trace._cur = cur
            return out

        def handle_events(sol_tuple, events, consts, direction, is_terminal, attributes):
            trace._cur = None
            out = trace._orig_he(sol_tuple, events, consts, direction, is_terminal, attributes)
            cur = trace._cur or {}
            cur["active"] = [int(i) for i in np.asarray(out[0]).reshape(-1)]
            cur["active_roots"] = [float(x) for x in np.asarray(out[1]).reshape(-1)]
            cur["terminate"] = bool(out[2])
            sol = sol_tuple[0]
            vals = []
            for r in np.asarray(out[1]).reshape(-1):
                try:
                    vals.append(np.array(sol(r), copy=True))
                except Exception as e:
                    vals.append(None)
            cur["sol_at_roots"] = vals
            cur["t_prev"] = float(np.asarray(sol_tuple[1]))
            cur["t_next"] = float(np.asarray(sol_tuple[2]))
            trace.steps.append(cur)
            return out

        ds.root_finder = root_finder
        ds.handle_events = handle_events

    def close(self):
        self.ds.root_finder = self._orig_rf
        self.ds.handle_events = self._orig_he


def true_roots(ev, prob, t0, tf, f_exact=None, n=4000):
    """roots of g(t, y*(t)) on [t0,tf] (ordered along the direction of integration) with d/dt g at each."""
    from scipy.optimize import brentq
    ts = np.linspace(t0, tf, n)

    def g(t):
        y = np.asarray(prob.ystar(t), dtype=np.float64)
        dy = np.asarray(prob.dystar(t), dtype=np.float64) if ev.kind == "dstate" else None
        return float(ev.s * (ev.h(np.float64(t), y, dy) - ev.c))
    vals = np.array([g(t) for t in ts])
    out = []
    for i in range(n - 1):
        if vals[i] == 0.0:
            out.append(ts[i])
        elif vals[i] * vals[i + 1] < 0:
            out.append(brentq(g, ts[i], ts[i + 1], xtol=1e-15, rtol=1e-15))
    if vals[-1] == 0.0:
        out.append(ts[-1])
    res = []
    span = abs(tf - t0)
    for r in out:
        d = 1e-6 * span
        gd = (g(r + d) - g(r - d)) / (2 * d)
        res.append((float(r), float(gd)))
    return res, float(np.max(np.abs(vals)))
