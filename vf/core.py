"""Runner: case generation -> sharded worker subprocesses -> verdict -> evidence.

Verdicts are three-valued (DESIGN.md section 2):
  exit 0  held on everything observed (known findings printed as KNOWN-FINDING lines)
  exit 1  >=1 violation not listed in known_findings.json; prints VIOLATION property=<id> replay=<path>
  exit 2  inconclusive (a monitor was never reached, a shard timed out, harness error)
"""
import hashlib
import importlib
import json
import os
import shutil
import subprocess
import sys
import time

VERIF = os.path.dirname(os.path.dirname(os.path.abspath(__file__)))
DEPS = os.path.join(VERIF, ".deps")
WHEELS = "/opt/veriftools/wheels"
PY = "/venv/bin/python"
GUARD = "DESOLVER_VERIF"
ALL_IDS = ["C%02d" % i for i in range(1, 21)]


def repo_dir():
    return os.path.abspath(os.environ.get("DESOLVER_REPO", "/repo"))


def ensure_deps():
    """icontract (in-situ contracts) is installed offline next to the repo's interpreter."""
    if os.path.isdir(os.path.join(DEPS, "icontract")):
        return
    os.makedirs(DEPS, exist_ok=True)
    cmd = [PY, "-m", "pip", "install", "--quiet", "--no-index", "--find-links", WHEELS,
           "--target", DEPS, "icontract"]
    subprocess.run(cmd, check=True, stdout=subprocess.DEVNULL, stderr=subprocess.DEVNULL)


def activate_repo():
    """Put the repository working tree (or DESOLVER_REPO) first on sys.path and check that it is used."""
    r = repo_dir()
    if r in sys.path:
        sys.path.remove(r)
    sys.path.insert(0, r)
    if DEPS not in sys.path:
        sys.path.append(DEPS)
    import desolver  # noqa
    got = os.path.dirname(os.path.dirname(os.path.abspath(desolver.__file__)))
    if got != r:
        raise RuntimeError("desolver imported from %s, expected %s" % (got, r))
    return desolver


def worker_env():
    env = dict(os.environ)
    env["PYTHONPATH"] = os.pathsep.join([VERIF, DEPS])
    env["PYTHONHASHSEED"] = "0"
    env["PYTHONDONTWRITEBYTECODE"] = "1"
    for k in ("OMP_NUM_THREADS", "MKL_NUM_THREADS", "OPENBLAS_NUM_THREADS"):
        env[k] = "1"
    env[GUARD] = "1"
    env["DESOLVER_REPO"] = repo_dir()
    env["PYTHONWARNINGS"] = "ignore"
    return env


# --------------------------------------------------------------------------------------------
# known findings
# --------------------------------------------------------------------------------------------
def load_findings():
    p = os.environ.get("VERIF_KNOWN_FINDINGS") or os.path.join(VERIF, "known_findings.json")   # override: development only
    if not os.path.exists(p):
        return []
    with open(p) as fh:
        return json.load(fh).get("findings", [])


def match_finding(pid, viol, findings):
    """An *open* entry suppresses a violation only when clause, mechanism and every selector feature agree.
    Selectors never mention seeds, hashes or random values."""
    for f in findings:
        if f.get("status") != "open" or f.get("property") != pid:
            continue
        if f.get("clause") != viol.get("clause"):
            continue
        if f.get("mechanism") != viol.get("mechanism"):
            continue
        feats = viol.get("features", {})
        ok = True
        for k, want in f.get("selector", {}).items():
            have = feats.get(k, None)
            if isinstance(want, list):
                if have not in want:
                    ok = False
            elif have != want:
                ok = False
        if ok:
            return f
    return None


# --------------------------------------------------------------------------------------------
def _jsonable(o):
    import numpy as np
    if isinstance(o, dict):
        return {str(k): _jsonable(v) for k, v in o.items()}
    if isinstance(o, (list, tuple)):
        return [_jsonable(v) for v in o]
    if isinstance(o, np.ndarray):
        return _jsonable(o.tolist())
    if isinstance(o, (np.floating,)):
        return float(o)
    if isinstance(o, (np.integer,)):
        return int(o)
    if isinstance(o, (np.bool_,)):
        return bool(o)
    if isinstance(o, float):
        if o != o or o in (float("inf"), float("-inf")):
            return repr(o)
        return o
    if isinstance(o, (str, int, bool)) or o is None:
        return o
    return repr(o)


def dumps(o):
    return json.dumps(_jsonable(o), sort_keys=True)


def case_hash(spec):
    return hashlib.sha1(dumps(spec).encode()).hexdigest()[:12]


def load_prop(pid):
    return importlib.import_module("vf.props.%s" % pid.lower())


def run_check(pid, tier="quick", seed=0, replay=None, jobs=None, verbose=False):
    t_start = time.time()
    ensure_deps()
    os.environ.setdefault("DESOLVER_REPO", repo_dir())
    try:
        activate_repo()
        mod = load_prop(pid)
    except Exception as e:  # the tree does not import: nothing can be observed
        print("INCONCLUSIVE property=%s reason=import-failure %r" % (pid, e))
        return 2
    if replay:
        with open(replay) as fh:
            rp = json.load(fh)
        cases = [rp["spec"]]
    else:
        try:
            cases = list(mod.gen_cases(tier, seed))
        except Exception as e:   # e.g. a reference run needed to plan the cases does not complete on this tree
            print("INCONCLUSIVE property=%s reason=case-planning-failed %s" % (pid, repr(e)[:300]))
            return 2
    for i, c in enumerate(cases):
        c.setdefault("case_id", i)
    njobs = jobs or int(os.environ.get("VERIF_JOBS", "16"))
    njobs = max(1, min(njobs, len(cases)))
    work = os.path.join(VERIF, ".work", "%s-%d-%d" % (pid, os.getpid(), int(t_start)))
    os.makedirs(work, exist_ok=True)
    # cost-balanced round robin: generators may attach "cost" hints
    order = sorted(range(len(cases)), key=lambda i: -float(cases[i].get("cost", 1.0)))
    shards = [[] for _ in range(njobs)]
    loads = [0.0] * njobs
    for i in order:
        j = loads.index(min(loads))
        shards[j].append(cases[i])
        loads[j] += float(cases[i].get("cost", 1.0))
    procs = []
    shard_timeout = float(os.environ.get("VERIF_SHARD_TIMEOUT", getattr(mod, "SHARD_TIMEOUT", {}).get(tier, 1500 if tier == "quick" else 7200)))
    for j, sh in enumerate(shards):
        sp = os.path.join(work, "shard%d.json" % j)
        op = os.path.join(work, "out%d.jsonl" % j)
        with open(sp, "w") as fh:
            fh.write(dumps({"pid": pid, "tier": tier, "seed": seed, "cases": sh}))
        errp = open(os.path.join(work, "err%d.txt" % j), "w")
        p = subprocess.Popen([PY, "-m", "vf.worker", sp, op], cwd=VERIF, env=worker_env(),
                             stdout=errp, stderr=errp)
        procs.append((p, op, errp, len(sh)))
    results = []
    globals_ = []
    inconclusive = []
    deadline = time.time() + shard_timeout
    for j, (p, op, errp, n) in enumerate(procs):
        try:
            p.wait(timeout=max(1.0, deadline - time.time()))
        except subprocess.TimeoutExpired:
            p.kill()
            p.wait()
            inconclusive.append("shard %d timed out (wall-clock watchdog; not a verdict)" % j)
        errp.close()
        done = False
        if os.path.exists(op):
            with open(op) as fh:
                for line in fh:
                    line = line.strip()
                    if not line:
                        continue
                    rec = json.loads(line)
                    if rec.get("_done"):
                        done = True
                        globals_.append(rec.get("global", {}))
                    else:
                        results.append(rec)
        if not done and not any("shard %d " % j in s for s in inconclusive):
            tail = ""
            try:
                with open(os.path.join(work, "err%d.txt" % j)) as fh:
                    tail = fh.read()[-600:]
            except Exception:
                pass
            inconclusive.append("shard %d died before finishing (rc=%s): %s" % (j, p.returncode, tail.replace("\n", " | ")))
    rc = _verdict(pid, mod, tier, seed, cases, results, globals_, inconclusive, t_start, replay, verbose)
    shutil.rmtree(work, ignore_errors=True)
    try:
        os.rmdir(os.path.join(VERIF, ".work"))
    except OSError:
        pass
    return rc


def _verdict(pid, mod, tier, seed, cases, results, globals_, inconclusive, t_start, replay, verbose):
    findings = load_findings()
    counters = {}
    sigs_nontrivial = set()
    sigs_all = set()
    unlisted = []
    known_hits = {}
    harness_errors = []
    timeouts = 0
    timeout_specs = []
    skipped = {}
    samples = []
    worst = {}
    for r in results:
        for k, v in r.get("counters", {}).items():
            counters[k] = counters.get(k, 0) + v
        for k, v in r.get("maxima", {}).items():
            v = float(v)   # non-finite values travel as strings
            if v != v:
                v = float("inf")
            if k not in worst or v > worst[k][0]:
                worst[k] = (v, r.get("case_id"))
        if r.get("harness_error"):
            harness_errors.append(r)
            continue
        if r.get("timeout"):
            timeouts += 1
            timeout_specs.append(r.get("spec"))
            continue
        if r.get("skipped"):
            skipped[r["skipped"]] = skipped.get(r["skipped"], 0) + 1
        sig = r.get("sig")
        if sig is not None:
            sigs_all.add(sig)
            if r.get("nontrivial"):
                sigs_nontrivial.add(sig)
        for v in r.get("violations", []):
            f = match_finding(pid, v, findings)
            if f is not None:
                known_hits.setdefault(f["id"], [f, 0, r])
                known_hits[f["id"]][1] += 1
            else:
                unlisted.append((r, v))
        if r.get("sample") is not None and len(samples) < 4 and r.get("nontrivial"):
            samples.append(r["sample"])
    if not samples:
        samples = [r.get("sample") for r in results if r.get("sample") is not None][:3]
    for g in globals_:
        for k, v in g.get("counters", {}).items():
            counters[k] = counters.get(k, 0) + v
        for v in g.get("violations", []):
            f = match_finding(pid, v, findings)
            if f is not None:
                known_hits.setdefault(f["id"], [f, 0, None])
                known_hits[f["id"]][1] += 1
            else:
                unlisted.append(({"spec": {"global": True}, "case_id": -1}, v))
    if len(results) < len(cases):
        inconclusive.append("only %d of %d cases reported" % (len(results), len(cases)))
    if harness_errors:
        inconclusive.append("%d harness errors, first: %s" % (len(harness_errors), harness_errors[0].get("harness_error", "")[-500:].replace("\n", " | ")))
    if timeouts:
        inconclusive.append("%d cases hit the per-case wall-clock watchdog, e.g. %s" % (timeouts, dumps(timeout_specs[:6])[:900]))
    if not replay:
        floors = getattr(mod, "FLOORS", {}).get(tier, {})
        for k, floor in floors.items():
            if counters.get(k, 0) < floor:
                inconclusive.append("reach counter %s=%d below floor %d (monitor not reached)" % (k, counters.get(k, 0), floor))
        if len(sigs_nontrivial) < 2:
            inconclusive.append("fewer than 2 distinct non-trivial cases")
        post = getattr(mod, "post_check", None)
        if post:
            inconclusive.extend(post(tier, results, counters) or [])
    # ---- report
    for fid, (f, n, r) in sorted(known_hits.items()):
        print("KNOWN-FINDING: property=%s %s [%s; %d occurrences this run]" % (pid, f["what"], fid, n))
    printed = set()
    nviol = 0
    rdir = os.path.join(VERIF, "replay", pid)
    for r, v in unlisted:
        nviol += 1
        key = (v.get("clause"), v.get("mechanism"), dumps(v.get("features", {})))
        if key in printed or len(printed) >= 20:
            continue
        printed.add(key)
        os.makedirs(rdir, exist_ok=True)
        path = os.path.join(rdir, "%s-%s.json" % (v.get("clause", "x"), case_hash(r.get("spec", {}))))
        with open(path, "w") as fh:
            fh.write(json.dumps(_jsonable({"property": pid, "spec": r.get("spec"), "violation": v}), indent=1, sort_keys=True))
        print("VIOLATION property=%s replay=%s" % (pid, path))
        print("  clause=%s mechanism=%s features=%s detail=%s" % (v.get("clause"), v.get("mechanism"), dumps(v.get("features", {})), dumps(v.get("detail", {}))[:600]))
    wall = time.time() - t_start
    level = getattr(mod, "LEVEL", "exploration")
    cov = {
        "evaluations": len(results),
        "distinct_nontrivial": len(sigs_nontrivial),
        "distinct_cases": len(sigs_all),
        "rule": getattr(mod, "RULE", ""),
        "samples": samples if samples else [{"note": "no sample"}],
        "monitor_counters": counters,
        "worst_observed": {k: {"value": v[0], "case_id": v[1]} for k, v in worst.items()},
        "skipped_undecidable": skipped,
        "known_findings_seen": {fid: n for fid, (f, n, r) in known_hits.items()},
        "inconclusive_reasons": inconclusive,
        "repo": repo_dir(),
    }
    if getattr(mod, "EXHAUSTIVE", {}).get(tier):
        cov["exhaustive"] = bool(mod.EXHAUSTIVE[tier]) and not inconclusive
    extra = getattr(mod, "evidence_extra", None)
    if extra:
        try:
            cov.update(extra(tier, results, counters))
        except Exception as e:  # evidence decoration must never change a verdict
            cov["evidence_extra_error"] = repr(e)
    ev = {
        "property_id": pid, "tier": tier, "seed": int(seed), "level": level, "coverage": cov,
        "assumptions": getattr(mod, "ASSUMPTIONS", []), "wall_s": round(wall, 2), "violations": nviol,
        "verdict": "violated" if nviol else ("inconclusive" if inconclusive else "held"),
    }
    if not replay and not os.environ.get("VERIF_NO_EVIDENCE"):
        os.makedirs(os.path.join(VERIF, "evidence"), exist_ok=True)
        with open(os.path.join(VERIF, "evidence", "%s.json" % pid), "w") as fh:
            fh.write(json.dumps(_jsonable(ev), indent=1, sort_keys=True))
    summ = "property=%s tier=%s seed=%s cases=%d distinct_nontrivial=%d violations=%d known=%d wall=%.1fs" % (
        pid, tier, seed, len(results), len(sigs_nontrivial), nviol, sum(n for _, n, _ in known_hits.values()), wall)
    if nviol:
        print("RESULT violated " + summ)
        return 1
    if inconclusive:
        for s in inconclusive:
            print("INCONCLUSIVE property=%s reason=%s" % (pid, s))
        print("RESULT inconclusive " + summ)
        return 2
    print("RESULT held " + summ)
    if verbose:
        print(json.dumps(_jsonable(counters), indent=1, sort_keys=True))
        print(json.dumps(_jsonable(cov["worst_observed"]), indent=1, sort_keys=True))
    return 0
